//! C19 random sampling
use crate::{cover, Outcome, Src};

/// RNG whose first `left` words are arbitrary and the rest zero (rand 0.8's range sampler rejects
/// about half of all words, so an unbounded adversarial stream need not terminate; every value the
/// sampler can accept is already reachable as a first draw)
pub struct SymRng<'a, S: Src> {
    pub s: &'a mut S,
    pub left: u32,
}
impl<'a, S: Src> rand::RngCore for SymRng<'a, S> {
    fn next_u32(&mut self) -> u32 {
        if self.left > 0 {
            self.left -= 1;
            self.s.u32()
        } else {
            0
        }
    }
    fn next_u64(&mut self) -> u64 {
        if self.left > 0 {
            self.left -= 1;
            self.s.u64()
        } else {
            0
        }
    }
    fn fill_bytes(&mut self, dest: &mut [u8]) {
        for b in dest.iter_mut() {
            *b = self.next_u32() as u8;
        }
    }
    fn try_fill_bytes(&mut self, dest: &mut [u8]) -> Result<(), rand::Error> {
        self.fill_bytes(dest);
        Ok(())
    }
}

macro_rules! bodies {
    ($P:ty) => {
        use super::*;
        pub fn sample<S: Src>(s: &mut S) -> Outcome {
            use rand::Rng;
            let mut g = SymRng { s, left: 3 };
            let p: $P = g.gen();
            let b = p.to_bits();
            let one = <$P>::ONE.to_bits();
            cover!(b & 1 == 1 && b > one / 2);
            cover!(b == 0);
            // real and in [0,1): as an unsigned pattern strictly below ONE (excludes NaR and negatives)
            Outcome::cond(b < one)
        }
    };
}
pub mod p8 {
    bodies!(softposit::P8E0);
}
pub mod p16 {
    bodies!(softposit::P16E1);
}
pub mod p32 {
    bodies!(softposit::P32E2);
}
