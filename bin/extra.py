"""Solver checks that are not Kani harnesses: SMT queries generated from the MIR of /repo's current
source (rustc nightly -Zunpretty=mir), decided by z3 and cvc5 (both must agree).

Currently: the contract of the crate-private integer division kernels `softposit::lldiv` (i64) and
`softposit::div` (i32) that the C01/C13/C16 division harnesses stub:

    for n >= 0, d > 0:   no panic,  q*d + r == n,  0 <= r < d          where (q, r) = kernel(n, d)

Bit-blasting this never finishes (DESIGN §4: the SAT solver must prove uniqueness of the quotient
through a 64-bit multiplier), so the kernel's MIR is translated into linear/non-linear INTEGER
arithmetic that keeps the machine semantics explicitly (every i64/i32 value is range-constrained,
`AddWithOverflow`/`SubWithOverflow` produce the wrapped value and the overflow flag, Rust's
truncating `/` and `%` are defined from SMT-LIB's `div` by cases on the signs). In that encoding the
division lemma is the solver's own axiom for `div`/`mod`, and the queries are decided in
milliseconds. The translator handles exactly the MIR constructs that occur in loop-free integer
functions (see `Translator`); anything else is reported as INCONCLUSIVE, never guessed.
"""
import json
import os
import re
import shutil
import subprocess
import time

REPO = "/repo"
ROOT = os.path.dirname(os.path.dirname(os.path.abspath(__file__)))
BUILD = os.path.join(ROOT, ".build")
ENV = dict(os.environ, CARGO_NET_OFFLINE="true", CARGO_TERM_COLOR="never")
ENV.pop("RUSTFLAGS", None)

WIDTH = {"i64": 64, "i32": 32, "i16": 16, "i8": 8, "isize": 64}


def dump_mir():
    out = os.path.join(BUILD, "softposit.mir")
    os.makedirs(BUILD, exist_ok=True)
    # force re-emission: -Zunpretty prints only when the crate is actually compiled
    os.utime(os.path.join(REPO, "src", "lib.rs"), None) if False else None
    tgt = os.path.join(BUILD, "mir-target")
    shutil.rmtree(os.path.join(tgt, "debug", ".fingerprint"), ignore_errors=True)
    p = subprocess.run(["cargo", "+nightly", "rustc", "--offline", "--lib", "--", "-Zunpretty=mir", "-C", "debug-assertions=off", "-C", "overflow-checks=on"],
                       cwd=REPO, env=dict(ENV, CARGO_TARGET_DIR=tgt), capture_output=True, text=True)
    if p.returncode != 0 or "fn " not in p.stdout:
        raise RuntimeError("MIR dump failed: " + p.stderr[-300:])
    open(out, "w").write(p.stdout)
    return p.stdout


def mir_fn(mir, name):
    """text of the first (runtime, not CTFE) MIR body of a free function"""
    m = re.search(r"^fn %s\((.*?)\) -> (.*?) \{\n(.*?)^\}\n" % re.escape(name), mir, re.M | re.S)
    if not m:
        return None
    return m.group(1), m.group(2), m.group(3)


class Unsupported(Exception):
    pass


class Translator:
    """symbolic execution of a loop-free MIR body over mathematical integers with explicit machine
    semantics. Produces, per path: path condition, panic obligations, return value terms."""

    def __init__(self, params, ret, body):
        self.types = {}
        for p in params.split(","):
            p = p.strip()
            if p:
                n, t = p.split(":")
                self.types[n.strip()] = t.strip()
        self.ret = ret.strip()
        for m in re.finditer(r"let (?:mut )?(_\d+): (.*?);", body):
            self.types[m.group(1)] = m.group(2)
        self.blocks = {}
        for m in re.finditer(r"^    (bb\d+): \{\n(.*?)^    \}", body, re.M | re.S):
            self.blocks[m.group(1)] = [l.strip() for l in m.group(2).strip().split("\n") if l.strip()]
        self.paths = []

    def width(self, place):
        t = self.types.get(place)
        if t in WIDTH:
            return WIDTH[t]
        raise Unsupported("type of %s: %s" % (place, t))

    @staticmethod
    def const(tok):
        m = re.match(r"const (-?\d+)_(i\d+|isize)$", tok)
        if m:
            return m.group(1) if not m.group(1).startswith("-") else "(- %s)" % m.group(1)[1:], m.group(2)
        m = re.match(r"const (i\d+)::MIN$", tok)
        if m:
            return "(- %d)" % (1 << (WIDTH[m.group(1)] - 1)), m.group(1)
        m = re.match(r"const (i\d+)::MAX$", tok)
        if m:
            return "%d" % ((1 << (WIDTH[m.group(1)] - 1)) - 1), m.group(1)
        raise Unsupported("constant " + tok)

    def operand(self, env, tok):
        tok = tok.strip()
        m = re.match(r"(?:copy|move) (_\d+)$", tok)
        if m:
            if m.group(1) not in env:
                raise Unsupported("use of unassigned " + m.group(1))
            return env[m.group(1)]
        m = re.match(r"(?:copy|move) \((_\d+)\.(\d): \w+\)$", tok)
        if m:
            return env[m.group(1)][int(m.group(2))]
        if tok.startswith("const "):
            if tok in ("const true", "const false"):
                return tok[6:]
            return self.const(tok)[0]
        raise Unsupported("operand " + tok)

    def run(self, args):
        self.paths = []
        self._exec("bb0", dict(args), [], [], 0)
        return self.paths

    def _exec(self, bb, env, pc, obligations, depth):
        if depth > 64:
            raise Unsupported("path too long (loop?)")
        env = dict(env)
        obligations = list(obligations)
        pc = list(pc)
        for line in self.blocks[bb]:
            if line.startswith(("StorageLive", "StorageDead", "debug ", "nop")):
                continue
            if line == "return;":
                self.paths.append({"pc": pc, "obligations": obligations, "ret": env.get("_0")})
                return
            m = re.match(r"goto -> (bb\d+);", line)
            if m:
                return self._exec(m.group(1), env, pc, obligations, depth + 1)
            m = re.match(r"switchInt\((.*?)\) -> \[0: (bb\d+), otherwise: (bb\d+)\];", line)
            if m:
                c = self.operand(env, m.group(1))
                self._exec(m.group(2), env, pc + ["(not %s)" % c], obligations, depth + 1)
                self._exec(m.group(3), env, pc + [c], obligations, depth + 1)
                return
            m = re.match(r"assert\((!?)(.*?), \"(.*?)\".*\) -> \[success: (bb\d+), unwind.*\];", line)
            if m:
                c = self.operand(env, m.group(2))
                good = "(not %s)" % c if m.group(1) == "!" else c
                obligations.append({"cond": good, "pc": list(pc), "msg": m.group(3)})
                pc.append(good)
                return self._exec(m.group(4), env, pc, obligations, depth + 1)
            m = re.match(r"(_\d+) = (.*);$", line)
            if m:
                env[m.group(1)] = self.rvalue(env, m.group(1), m.group(2))
                continue
            raise Unsupported("statement: " + line)
        raise Unsupported("block %s falls through" % bb)

    def rvalue(self, env, dst, rv):
        rv = rv.strip()
        m = re.match(r"(\w+)\((.*), (.*)\)$", rv)
        if m and m.group(1) in ("Eq", "Ne", "Lt", "Le", "Gt", "Ge", "BitAnd", "BitOr", "Div", "Rem", "AddWithOverflow", "SubWithOverflow", "Add", "Sub"):
            op, a, b = m.group(1), self.operand(env, m.group(2)), self.operand(env, m.group(3))
            if op in ("Eq", "Ne", "Lt", "Le", "Gt", "Ge"):
                t = {"Eq": "(= %s %s)", "Ne": "(not (= %s %s))", "Lt": "(< %s %s)", "Le": "(<= %s %s)", "Gt": "(> %s %s)", "Ge": "(>= %s %s)"}[op]
                return t % (a, b)
            if op in ("BitAnd", "BitOr"):
                if self.types.get(dst) != "bool":
                    raise Unsupported("bitwise op on integers")
                return "(%s %s %s)" % ("and" if op == "BitAnd" else "or", a, b)
            if op == "Div":
                return "(tdiv %s %s)" % (a, b)
            if op == "Rem":
                return "(trem %s %s)" % (a, b)
            w = None
            t = self.types.get(dst, "")
            mm = re.match(r"\((i\d+), bool\)", t)
            if op.endswith("WithOverflow"):
                if not mm:
                    raise Unsupported("overflow op type " + t)
                w = WIDTH[mm.group(1)]
                s = "(%s %s %s)" % ("+" if op.startswith("Add") else "-", a, b)
                lo, hi = -(1 << (w - 1)), (1 << (w - 1)) - 1
                ovf = "(or (< %s (- %d)) (> %s %d))" % (s, -lo, s, hi)
                wrapped = "(wrap%d %s)" % (w, s)
                return (wrapped, ovf)
            raise Unsupported("unchecked " + op)
        m = re.match(r"\((.*), (.*)\)$", rv)
        if m:
            return (self.operand(env, m.group(1)), self.operand(env, m.group(2)))
        if re.match(r"(copy|move|const) ", rv):
            return self.operand(env, rv)
        raise Unsupported("rvalue: " + rv)


PRELUDE = """(set-logic ALL)
(define-fun tdiv ((a Int) (b Int)) Int (ite (>= a 0) (ite (> b 0) (div a b) (- (div a (- b)))) (ite (> b 0) (- (div (- a) b)) (div (- a) (- b)))))
(define-fun trem ((a Int) (b Int)) Int (- a (* b (tdiv a b))))
(define-fun wrap64 ((a Int)) Int (- (mod (+ a 9223372036854775808) 18446744073709551616) 9223372036854775808))
(define-fun wrap32 ((a Int)) Int (- (mod (+ a 2147483648) 4294967296) 2147483648))
"""


def solve(script, timeout=60):
    """returns {solver: 'sat'|'unsat'|'unknown'|'error'}, model text from z3 if sat"""
    res, model, secs = {}, "", 0.0
    path = os.path.join(BUILD, "q_%d.smt2" % os.getpid())
    open(path, "w").write(script)
    for name, cmd in (("z3", ["z3", "-T:%d" % timeout, path]), ("cvc5", ["cvc5", "--lang", "smt2", "--tlimit=%d" % (timeout * 1000), "--produce-models", path])):
        t0 = time.time()
        try:
            p = subprocess.run(cmd, capture_output=True, text=True, timeout=timeout + 10)
            out = p.stdout.strip()
        except subprocess.TimeoutExpired:
            out = "unknown"
        secs += time.time() - t0
        first = out.split("\n")[0].strip() if out else "error"
        res[name] = first if first in ("sat", "unsat", "unknown") else "error"
        if res[name] == "unsat" and "(error" in out.split("\n", 1)[0]:
            res[name] = "error"
        if res[name] == "sat" and not model:
            model = out
    os.unlink(path)
    return res, model, secs


class DivContract:
    name = "div_kernel_contract"
    tier = "quick"

    def __init__(self):
        self.kernels = [("lldiv", "i64", 64), ("div", "i32", 32)]

    def run(self, prop, tier, seed, replay_native):
        r = {"name": self.name, "queries": 0, "queries_unsat": 0, "solver_s": 0.0, "samples": [], "violations": [], "inconclusive": [], "functions": [],
             "assumptions": ["SMT-LIB integer semantics of div/mod (z3 4.8.12 and cvc5 1.0 must both answer unsat)", "the MIR printed by rustc nightly -Zunpretty=mir for the current /repo source (overflow checks on)"]}
        t0 = time.time()
        try:
            mir = dump_mir()
        except RuntimeError as e:
            r["inconclusive"].append(str(e))
            return r
        r["mir_dump_s"] = round(time.time() - t0, 1)
        for fname, ty, w in self.kernels:
            f = mir_fn(mir, fname)
            if not f:
                r["inconclusive"].append("no free function `%s` in the MIR of this tree (renamed/inlined?) — the stubbed division harnesses depend on it" % fname)
                continue
            r["functions"].append("softposit::%s (MIR -> SMT, integer encoding)" % fname)
            try:
                tr = Translator(*f)
                paths = tr.run({"_1": "n", "_2": "d"})
            except (Unsupported, KeyError) as e:
                r["inconclusive"].append("%s: MIR construct outside the translator: %s" % (fname, e))
                continue
            lo, hi = -(1 << (w - 1)), (1 << (w - 1)) - 1
            decl = PRELUDE + "(declare-const n Int)\n(declare-const d Int)\n(assert (and (>= n 0) (<= n %d) (> d 0) (<= d %d)))\n" % (hi, hi)
            queries = []
            for i, p in enumerate(paths):
                pc = " ".join(p["pc"]) or "true"
                for ob in p["obligations"]:
                    pre = " ".join(ob["pc"]) or "true"
                    queries.append(("%s path %d: no panic `%s`" % (fname, i, ob["msg"][:50]), "(assert (and %s))\n(assert (not %s))" % (pre, ob["cond"])))
                q, rr = p["ret"]
                queries.append(("%s path %d: q*d + r == n, 0 <= r < d, results in range" % (fname, i),
                                "(assert (and %s))\n(assert (not (and (= (+ (* %s d) %s) n) (>= %s 0) (< %s d) (>= %s 0) (<= %s %d))))" % (pc, q, rr, rr, rr, q, q, hi)))
            # the paths cover every input (no path condition gap)
            queries.append(("%s: the %d paths cover every (n, d)" % (fname, len(paths)), "(assert (not (or %s)))" % " ".join("(and %s)" % (" ".join(p["pc"]) or "true") for p in paths)))
            # dedupe identical queries (assertions repeated on several paths)
            seen = set()
            for desc, body in queries:
                if body in seen:
                    continue
                seen.add(body)
                script = decl + body + "\n(check-sat)\n"
                res, model, secs = solve(script)
                r["queries"] += 1
                r["solver_s"] += secs
                verdicts = set(res.values())
                rec = {"query": desc, "bound": "every n in [0, 2^%d), d in (0, 2^%d) — the whole call-site domain and more" % (w - 1, w - 1), "solvers": res, "solver_s": round(secs, 3)}
                if verdicts == {"unsat"}:
                    r["queries_unsat"] += 1
                    rec["verdict"] = "UNSAT (holds for every input in the bound)"
                elif "sat" in verdicts:
                    _, model, _ = solve(decl + body + "\n(check-sat)\n(get-model)\n")
                    mn = re.search(r"\(define-fun n \(\) Int\s+(\(- \d+\)|\d+)\)", model)
                    md = re.search(r"\(define-fun d \(\) Int\s+(\(- \d+\)|\d+)\)", model)
                    vals = [int(re.sub(r"[^\d]", "", x.group(1))) * (-1 if "-" in x.group(1) else 1) if x else None for x in (mn, md)]
                    nat = self.native(fname, ty, vals)
                    rec["verdict"] = "SAT"
                    rec["model"] = vals
                    rec["native"] = nat
                    if nat.get("violates"):
                        r["violations"].append({"kind": "extra", "check": self.name, "kernel": fname, "n": vals[0], "d": vals[1], "query": desc, "native": nat,
                                                "summary": "softposit::%s(%s, %s): %s" % (fname, vals[0], vals[1], nat.get("out"))})
                    else:
                        r["inconclusive"].append("%s: solver model (%s) does not reproduce natively: %s" % (desc, vals, nat))
                        r["machinery"] = "non-reproducing SMT model"
                else:
                    r["inconclusive"].append("%s: solvers answered %s" % (desc, res))
                    rec["verdict"] = "undecided"
                r["samples"].append(rec)
            # translator validation: concrete points through the encoding and through the real source text
            pts = [(0, 1), (7, 2), (hi, 1), (hi, hi), (1 << (w - 3), (1 << (w // 2 - 2)) + 1), (12345678901234 % hi, 97), (5, 9)]
            bad = 0
            for (n, d) in pts:
                nat = self.native(fname, ty, [n, d])
                if nat.get("error"):
                    r["inconclusive"].append("native copy of %s failed: %s" % (fname, nat["error"]))
                    bad = -1
                    break
                if "q" not in nat:
                    continue  # the source panics/hangs here: nothing to compare (reported by the queries above)
                # which (q, r) does the encoding give?
                found = None
                for p in paths:
                    pcs = " ".join(p["pc"]) or "true"
                    script = PRELUDE + "(define-fun n () Int %d)\n(define-fun d () Int %d)\n(assert (and %s))\n(declare-const q Int)(declare-const r Int)\n(assert (and (= q %s) (= r %s)))\n(check-sat)\n(get-value (q r))\n" % (n, d, pcs, p["ret"][0], p["ret"][1])
                    pr = subprocess.run(["z3", "-T:20", "-in"], input=script, capture_output=True, text=True)
                    if pr.stdout.startswith("sat"):
                        mm = re.findall(r"\(([qr]) (\(- \d+\)|\d+)\)", pr.stdout)
                        found = tuple(int(re.sub(r"[^\d]", "", v)) * (-1 if "-" in v else 1) for _, v in mm)
                if found != (nat.get("q"), nat.get("r")):
                    bad += 1
                    r["inconclusive"].append("translator validation: encoding gives %s, the compiled source gives (%s, %s) at %s(%d, %d)" % (found, nat.get("q"), nat.get("r"), fname, n, d))
                    r["machinery"] = "MIR translator disagrees with the compiled source"
            r.setdefault("translator_validation", []).append({"kernel": fname, "points": len(pts), "disagreements": max(bad, 0)})
        r["solver_s"] = round(r["solver_s"], 2)
        return r

    def native(self, fname, ty, vals):
        """compile the kernel's own source text (cut out of /repo/src/lib.rs) and run it on (n, d)"""
        src = open(os.path.join(REPO, "src", "lib.rs")).read()
        m = re.search(r"(const fn %s\(.*?\n\}\n)" % re.escape(fname), src, re.S)
        if not m:
            return {"error": "source of %s not found in src/lib.rs" % fname}
        d = os.path.join(BUILD, "kernel_native")
        os.makedirs(d, exist_ok=True)
        main = m.group(1) + """
fn main() {
    let a: Vec<String> = std::env::args().collect();
    let n: %s = a[1].parse().unwrap(); let d: %s = a[2].parse().unwrap();
    let (q, r) = %s(n, d);
    println!("{} {}", q, r);
}
""" % (ty, ty, fname)
        srcp = os.path.join(d, fname + ".rs")
        binp = os.path.join(d, fname)
        changed = True
        try:
            changed = open(srcp).read() != main
        except OSError:
            pass
        if changed or not os.path.exists(binp):
            open(srcp, "w").write(main)
            p = subprocess.run(["rustc", "-C", "overflow-checks=on", "-o", binp, srcp], capture_output=True, text=True, env=ENV)
            if p.returncode != 0:
                return {"error": p.stderr[-300:]}
        try:
            p = subprocess.run([binp, str(vals[0]), str(vals[1])], capture_output=True, text=True, timeout=10)
        except subprocess.TimeoutExpired:
            return {"violates": True, "out": "hang"}
        if p.returncode != 0:
            return {"violates": True, "out": "panic: " + p.stderr.strip()[:200]}
        q, r = [int(x) for x in p.stdout.split()]
        n, dd = vals
        ok = q * dd + r == n and 0 <= r < dd
        return {"violates": not ok, "q": q, "r": r, "out": "(q, r) = (%d, %d)" % (q, r)}

    def replay(self, rec):
        nat = self.native(rec["kernel"], "i64" if rec["kernel"] == "lldiv" else "i32", [rec["n"], rec["d"]])
        print("replay softposit::%s(%s, %s): %s" % (rec["kernel"], rec["n"], rec["d"], nat))
        if nat.get("violates"):
            print("VIOLATION property=%s replay=%s" % (rec.get("property", "C01"), rec.get("path", "")))
            return 1
        return 0


REGISTRY = {"C01": [DivContract()]}


def checks_for(prop, tier):
    return [c for c in REGISTRY.get(prop, []) if tier == "thorough" or c.tier == "quick"]


def replay(rec, replay_native):
    for cs in REGISTRY.values():
        for c in cs:
            if c.name == rec.get("check"):
                return c.replay(rec)
    print("unknown extra check", rec.get("check"))
    return 2
