//! C10 ordering, sign, selection
use crate::refmodel as r;
use crate::{cover, Outcome, Src};
use core::cmp::Ordering;

fn ord(c: i32) -> Ordering {
    if c < 0 {
        Ordering::Less
    } else if c > 0 {
        Ordering::Greater
    } else {
        Ordering::Equal
    }
}

macro_rules! bodies {
    ($P:ty, $draw:ident, $n:expr, $es:expr) => {
        use super::*;
        pub fn compare<S: Src>(s: &mut S) -> Outcome {
            let (x, y) = (s.$draw(), s.$draw());
            let (a, b) = (<$P>::from_bits(x), <$P>::from_bits(y));
            let c = r::cmp($n, $es, x as u32, y as u32);
            cover!(c < 0 && (x as u32) >> ($n - 1) == 1 && (y as u32) >> ($n - 1) == 1 && x != r::nar($n) as _);
            let o = ord(c);
            let ok = (a == b) == (c == 0)
                && (a != b) == (c != 0)
                && (a < b) == (c < 0)
                && (a <= b) == (c <= 0)
                && (a > b) == (c > 0)
                && (a >= b) == (c >= 0)
                && a.eq(b) == (c == 0)
                && a.lt(b) == (c < 0)
                && a.le(b) == (c <= 0)
                && a.gt(b) == (c > 0)
                && a.ge(b) == (c >= 0)
                && <$P>::cmp(a, b) == o
                && Ord::cmp(&a, &b) == o
                && PartialOrd::partial_cmp(&a, &b) == Some(o);
            let mn = if c <= 0 { x } else { y };
            let mx = if c >= 0 { x } else { y };
            Outcome::cond(ok)
                .and(Outcome::eq(a.min(b).to_bits() as u64, mn as u64))
                .and(Outcome::eq(a.max(b).to_bits() as u64, mx as u64))
                .and(Outcome::eq(Ord::min(a, b).to_bits() as u64, mn as u64))
                .and(Outcome::eq(Ord::max(a, b).to_bits() as u64, mx as u64))
        }
        pub fn clamp<S: Src>(s: &mut S) -> Outcome {
            let (x, lo, hi) = (s.$draw(), s.$draw(), s.$draw());
            crate::assume!(s, r::cmp($n, $es, lo as u32, hi as u32) <= 0);
            let got = <$P>::from_bits(x).clamp(<$P>::from_bits(lo), <$P>::from_bits(hi)).to_bits();
            let want = if r::cmp($n, $es, x as u32, lo as u32) < 0 {
                lo
            } else if r::cmp($n, $es, x as u32, hi as u32) > 0 {
                hi
            } else {
                x
            };
            cover!(want == lo && lo != hi && x != lo);
            Outcome::eq(got as u64, want as u64)
        }
        pub fn unary<S: Src>(s: &mut S) -> Outcome {
            use core::num::FpCategory;
            let x = s.$draw();
            let p = <$P>::from_bits(x);
            let xr = x as u32;
            let nar = r::nar($n);
            let real = r::is_real($n, xr);
            let ng = (-p).to_bits() as u32;
            let ng2 = p.neg().to_bits() as u32;
            // exact negation: same scale and significand, opposite sign; fixes 0 and NaR; involution
            let neg_ok = if real {
                let (s1, e1, m1) = r::dec($n, $es, xr);
                r::is_real($n, ng) && {
                    let (s2, e2, m2) = r::dec($n, $es, ng);
                    s2 != s1 && e2 == e1 && m2 == m1
                }
            } else {
                ng == xr
            };
            let invol = (-(-p)).to_bits() == x;
            let negative = real && r::sign_of($n, xr);
            let ab = p.abs().to_bits() as u32;
            let abs_ok = if real { ab == if negative { ng } else { xr } } else { ab == xr };
            let sg = p.signum().to_bits() as u32;
            let one = <$P>::ONE.to_bits() as u32;
            let sg_ok = if xr == nar {
                sg == nar
            } else if xr == 0 {
                sg == 0
            } else if negative {
                sg == r::neg_n($n, one)
            } else {
                sg == one
            };
            let (one_s, one_e, one_m) = r::dec($n, $es, one);
            let one_ok = !one_s && one_e == 0 && one_m == 0x8000_0000;
            let sign_ok = if xr != nar {
                p.is_sign_negative() == negative && p.is_sign_positive() == !negative
            } else {
                p.is_sign_positive() == !p.is_sign_negative()
            };
            let class_ok = p.is_zero() == (xr == 0)
                && p.is_nar() == (xr == nar)
                && p.is_nan() == (xr == nar)
                && p.is_finite() == (xr != nar)
                && p.classify() == if xr == 0 { FpCategory::Zero } else if xr == nar { FpCategory::Nan } else { FpCategory::Normal };
            cover!(negative && x & 1 == 1);
            Outcome::cond(neg_ok)
                .and(Outcome::eq(ng2 as u64, ng as u64))
                .and(Outcome::cond(invol))
                .and(Outcome::cond(abs_ok))
                .and(Outcome::cond(sg_ok && one_ok))
                .and(Outcome::cond(sign_ok))
                .and(Outcome::cond(class_ok))
        }
        pub fn copysign<S: Src>(s: &mut S) -> Outcome {
            let (x, y) = (s.$draw(), s.$draw());
            crate::assume!(s, y as u32 != r::nar($n));
            let got = <$P>::from_bits(x).copysign(<$P>::from_bits(y)).to_bits() as u32;
            let xr = x as u32;
            let want = if !r::is_real($n, xr) {
                xr
            } else {
                let mag = if r::sign_of($n, xr) { r::neg_n($n, xr) } else { xr };
                if r::sign_of($n, y as u32) {
                    r::neg_n($n, mag)
                } else {
                    mag
                }
            };
            cover!(got != xr);
            Outcome::eq(got as u64, want as u64)
        }
    };
}
pub mod p8 {
    bodies!(softposit::P8E0, u8, 8, 0);
}
pub mod p16 {
    bodies!(softposit::P16E1, u16, 16, 1);
}
pub mod p32 {
    bodies!(softposit::P32E2, u32, 32, 2);
}

macro_rules! px_bodies {
    ($P:ident, $es:expr) => {
        use super::*;
        pub fn compare<const N: u32, S: Src>(s: &mut S) -> Outcome {
            let (x, y) = (s.u32(), s.u32());
            crate::assume!(s, x <= r::mask(N) && y <= r::mask(N));
            let sh = 32 - N;
            let (a, b) = (softposit::$P::<N>::from_bits(x << sh), softposit::$P::<N>::from_bits(y << sh));
            let c = r::cmp(N, $es, x, y);
            let o = ord(c);
            cover!(c < 0);
            let ok = (a == b) == (c == 0)
                && (a != b) == (c != 0)
                && (a < b) == (c < 0)
                && (a <= b) == (c <= 0)
                && (a > b) == (c > 0)
                && (a >= b) == (c >= 0)
                && a.eq(b) == (c == 0)
                && a.lt(b) == (c < 0)
                && a.le(b) == (c <= 0)
                && a.gt(b) == (c > 0)
                && a.ge(b) == (c >= 0)
                && softposit::$P::<N>::cmp(a, b) == o
                && Ord::cmp(&a, &b) == o
                && PartialOrd::partial_cmp(&a, &b) == Some(o)
                && a.is_zero() == (x == 0)
                && a.is_nar() == (x == r::nar(N));
            Outcome::cond(ok)
        }
    };
}
pub mod pxe1 {
    px_bodies!(PxE1, 1);
}
pub mod pxe2 {
    px_bodies!(PxE2, 2);
}
