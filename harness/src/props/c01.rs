//! C01 add / sub / mul / div vs the reference
use crate::refmodel as r;
use crate::{cover, Outcome, Src};

/// reference quotient from the single integer division the implementation performed (logged by the
/// `lldiv`/`div` stub): checks the operands are the decoded significands (up to a power of two) and
/// rounds the shared quotient. Kani only.
pub fn div_want_from_log(n: u32, es: u32, a: u32, b: u32) -> Outcome {
    let (sa, ea, ma) = r::dec(n, es, a);
    let (sb, eb, mb) = r::dec(n, es, b);
    let (nn, dd, q, rem, calls) = unsafe { (crate::stubs::DIV_N, crate::stubs::DIV_D, crate::stubs::DIV_Q, crate::stubs::DIV_R, crate::stubs::DIV_CALLS) };
    if calls == 0 && ma == mb {
        // no integer division was needed: equal significands, the quotient is exactly 2^(ea-eb)
        let want = r::with_sign(n, sa ^ sb, r::enc64(n, es, ea - eb, 1u64 << 63, false));
        return Outcome { skipped: false, ok: true, got: [0; 8], want: [want as u64, 0, 0, 0, 0, 0, 0, 0], words: 1 };
    }
    if calls != 1 || nn == 0 || dd == 0 || q == 0 {
        return Outcome::cond(false);
    }
    let ln = nn.leading_zeros();
    let ld = dd.leading_zeros();
    let lq = q.leading_zeros();
    // operands of the division are the two significands, scaled by powers of two
    if nn << ln != (ma as u64) << 32 || dd << ld != (mb as u64) << 32 {
        return Outcome::cond(false);
    }
    // a/b = (nn/dd) * 2^(ea-eb) * 2^(pd-pn)
    let (pn, pd, pq) = (63 - ln as i32, 63 - ld as i32, 63 - lq as i32);
    let scale = ea - eb + pd - pn + pq;
    let want = r::with_sign(n, sa ^ sb, r::enc64(n, es, scale, q << lq, rem != 0));
    Outcome::eq(0, 0).and(Outcome { skipped: false, ok: true, got: [0; 8], want: [want as u64, 0, 0, 0, 0, 0, 0, 0], words: 1 })
}

macro_rules! bodies {
    ($P:ty, $draw:ident, $n:expr, $es:expr) => {
        use super::*;
        pub fn add<S: Src>(s: &mut S) -> Outcome {
            let (x, y) = (s.$draw(), s.$draw());
            let got = (<$P>::from_bits(x) + <$P>::from_bits(y)).to_bits() as u64;
            let want = r::add($n, $es, x as u32, y as u32) as u64;
            cover!(got & 1 == 1 && got != x as u64 && got != y as u64 && (x ^ y) >> ($n - 1) == 1);
            Outcome::eq(got, want)
        }
        pub fn sub<S: Src>(s: &mut S) -> Outcome {
            let (x, y) = (s.$draw(), s.$draw());
            let got = (<$P>::from_bits(x) - <$P>::from_bits(y)).to_bits() as u64;
            let want = r::sub($n, $es, x as u32, y as u32) as u64;
            cover!(got & 1 == 1 && got != x as u64 && (x ^ y) >> ($n - 1) == 0);
            Outcome::eq(got, want)
        }
        pub fn mul<S: Src>(s: &mut S) -> Outcome {
            let (x, y) = (s.$draw(), s.$draw());
            let got = (<$P>::from_bits(x) * <$P>::from_bits(y)).to_bits() as u64;
            let want = r::mul($n, $es, x as u32, y as u32) as u64;
            cover!(got & 1 == 1 && got != 1 && x & 1 == 1 && y & 1 == 1);
            Outcome::eq(got, want)
        }
        /// all pairs, modulo the contract of the integer division kernel (stubbed, quotient shared)
        pub fn div<S: Src>(s: &mut S) -> Outcome {
            let (x, y) = (s.$draw(), s.$draw());
            let got = (<$P>::from_bits(x) / <$P>::from_bits(y)).to_bits() as u64;
            let (xr, yr) = (x as u32, y as u32);
            if !r::is_real($n, xr) || !r::is_real($n, yr) {
                let want = if xr == r::nar($n) || yr == r::nar($n) || yr == 0 { r::nar($n) } else { 0 };
                return Outcome::eq(got, want as u64);
            }
            if S::SYMBOLIC {
                let w = div_want_from_log($n, $es, xr, yr);
                if !w.ok {
                    return w;
                }
                cover!(got & 1 == 1 && got != 1 && unsafe { crate::stubs::DIV_R } != 0);
                cover!(got == r::maxpos($n) as u64);
                Outcome::eq(got, w.want[0])
            } else {
                Outcome::eq(got, r::native_div($n, $es, xr, yr) as u64)
            }
        }
        /// no stub: the real kernel divides; divisor restricted to <= 6 fraction bits
        pub fn div_bounded<S: Src>(s: &mut S) -> Outcome {
            let (x, y) = (s.$draw(), s.$draw());
            let (xr, yr) = (x as u32, y as u32);
            crate::assume!(s, r::is_real($n, xr) && r::is_real($n, yr));
            let (_, _, mb) = r::dec($n, $es, yr);
            crate::assume!(s, mb & 0x01ff_ffff == 0);
            let got = (<$P>::from_bits(x) / <$P>::from_bits(y)).to_bits() as u64;
            // reference quotient by witness: q*mb + rem == ma << 32
            let (_, _, ma) = r::dec($n, $es, xr);
            let num = (ma as u64) << 32;
            let (q, rem) = if S::SYMBOLIC {
                let q = s.u64();
                let rem = s.u64();
                crate::assume!(s, q < (1u64 << 34) && rem < mb as u64 && (q as u128) * (mb as u128) + rem as u128 == num as u128);
                (q, rem)
            } else {
                (num / mb as u64, num % mb as u64)
            };
            cover!(got & 1 == 1 && rem != 0);
            Outcome::eq(got, r::div_from_qr($n, $es, xr, yr, q, rem != 0) as u64)
        }
        /// one operator at a time (OP 0 add, 1 sub, 2 mul): trait, const-method and op-assign spellings agree
        pub fn spell_op<const OP: u8, S: Src>(s: &mut S) -> Outcome {
            let (x, y) = (s.$draw(), s.$draw());
            let (a, b) = (<$P>::from_bits(x), <$P>::from_bits(y));
            let mut c = a;
            cover!(x & 1 == 1 && y & 1 == 1);
            match OP {
                0 => {
                    c += b;
                    Outcome::eq((a + b).to_bits() as u64, a.add(b).to_bits() as u64).and(Outcome::eq(c.to_bits() as u64, a.add(b).to_bits() as u64))
                }
                1 => {
                    c -= b;
                    Outcome::eq((a - b).to_bits() as u64, a.sub(b).to_bits() as u64).and(Outcome::eq(c.to_bits() as u64, a.sub(b).to_bits() as u64))
                }
                _ => {
                    c *= b;
                    Outcome::eq((a * b).to_bits() as u64, a.mul(b).to_bits() as u64).and(Outcome::eq(c.to_bits() as u64, a.mul(b).to_bits() as u64))
                }
            }
        }
        /// operator-trait, const-method and op-assign spellings agree
        pub fn spell<S: Src>(s: &mut S) -> Outcome {
            let (x, y) = (s.$draw(), s.$draw());
            let (a, b) = (<$P>::from_bits(x), <$P>::from_bits(y));
            let mut c = a;
            c += b;
            let mut d = a;
            d -= b;
            let mut e = a;
            e *= b;
            cover!(x & 1 == 1 && y & 1 == 1);
            Outcome::eq((a + b).to_bits() as u64, a.add(b).to_bits() as u64)
                .and(Outcome::eq((a - b).to_bits() as u64, a.sub(b).to_bits() as u64))
                .and(Outcome::eq((a * b).to_bits() as u64, a.mul(b).to_bits() as u64))
                .and(Outcome::eq(c.to_bits() as u64, a.add(b).to_bits() as u64))
                .and(Outcome::eq(d.to_bits() as u64, a.sub(b).to_bits() as u64))
                .and(Outcome::eq(e.to_bits() as u64, a.mul(b).to_bits() as u64))
        }
    };
}
pub mod p8 {
    bodies!(softposit::P8E0, u8, 8, 0);
}
pub mod p16 {
    bodies!(softposit::P16E1, u16, 16, 1);
}
pub mod p32 {
    bodies!(softposit::P32E2, u32, 32, 2);
    use softposit::P32E2;

    /// one slice of the partition of all real pairs by sign relation and scale distance
    fn slice<const SAME: bool, const DLO: i32, const DHI: i32, S: Src>(s: &mut S, x: u32, y_eff: u32) -> bool {
        if !(r::is_real(32, x) && r::is_real(32, y_eff)) {
            return s.assume(false);
        }
        let same = (x ^ y_eff) >> 31 == 0;
        let d = r::scale_of(32, 2, x) - r::scale_of(32, 2, y_eff);
        let d = if d < 0 { -d } else { d };
        s.assume(same == SAME && d >= DLO && d <= DHI)
    }
    pub fn add_slice<const SAME: bool, const DLO: i32, const DHI: i32, S: Src>(s: &mut S) -> Outcome {
        let (x, y) = (s.u32(), s.u32());
        if !slice::<SAME, DLO, DHI, S>(s, x, y) {
            return Outcome::skip();
        }
        let got = (P32E2::from_bits(x) + P32E2::from_bits(y)).to_bits() as u64;
        cover!(x & 1 == 1 && y & 1 == 1 && (DLO == 0 || got & 1 == 1));
        Outcome::eq(got, r::add(32, 2, x, y) as u64)
    }
    pub fn sub_slice<const SAME: bool, const DLO: i32, const DHI: i32, S: Src>(s: &mut S) -> Outcome {
        let (x, y) = (s.u32(), s.u32());
        // slice on the effective addend -y
        if !slice::<SAME, DLO, DHI, S>(s, x, y.wrapping_neg()) {
            return Outcome::skip();
        }
        let got = (P32E2::from_bits(x) - P32E2::from_bits(y)).to_bits() as u64;
        cover!(x & 1 == 1 && y & 1 == 1 && (DLO == 0 || got & 1 == 1));
        Outcome::eq(got, r::sub(32, 2, x, y) as u64)
    }
    /// zero / NaR operands (the complement of the slices' domain)
    pub fn addsub_special<S: Src>(s: &mut S) -> Outcome {
        let (x, y) = (s.u32(), s.u32());
        crate::assume!(s, !(r::is_real(32, x) && r::is_real(32, y)));
        let g1 = (P32E2::from_bits(x) + P32E2::from_bits(y)).to_bits() as u64;
        let g2 = (P32E2::from_bits(x) - P32E2::from_bits(y)).to_bits() as u64;
        cover!(x == 0 && y >> 31 == 1 && y != 0x8000_0000);
        Outcome::eq(g1, r::add(32, 2, x, y) as u64).and(Outcome::eq(g2, r::sub(32, 2, x, y) as u64))
    }
    /// the slice predicates cover every real pair (a gap in the partition is a failed proof)
    pub fn slices_cover<S: Src>(s: &mut S) -> Outcome {
        let (x, y) = (s.u32(), s.u32());
        crate::assume!(s, r::is_real(32, x) && r::is_real(32, y));
        let same = (x ^ y) >> 31 == 0;
        let d = (r::scale_of(32, 2, x) - r::scale_of(32, 2, y)).abs();
        let in_same = d == 0 || d == 1 || (2..=3).contains(&d) || (4..=7).contains(&d) || (8..=15).contains(&d) || (16..=25).contains(&d) || (26..=40).contains(&d) || (41..=1000).contains(&d);
        let in_diff = d == 0 || d == 1 || (2..=3).contains(&d) || (4..=7).contains(&d) || (8..=40).contains(&d) || (41..=1000).contains(&d);
        cover!(d == 240);
        Outcome::cond(if same { in_same } else { in_diff })
    }
}
