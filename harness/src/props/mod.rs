pub mod c08;
