//! C11 P16E1 / P8E0 elementary functions vs correctly rounded tables (oracle/gen_tables.py)
//!
//! One harness body per (function, slice): each refers to its own 4096-entry (256 for the edge set) static cut out of the
//! full table at compile time, so that the goto program of a harness contains — and the solver encodes — only the
//! entries its slice can index. (With the whole 65536-entry table reachable, CBMC spent about a minute per harness
//! reading and bit-blasting the table before any solving.)
use crate::tables as t;
use crate::{cover, Outcome, Src};
use softposit::{P16E1, P8E0};

const fn cut<const K: usize>(full: &[u16; 65536]) -> [u16; 4096] {
    let mut o = [0u16; 4096];
    let mut i = 0;
    while i < 4096 {
        o[i] = full[(K << 12) + i];
        i += 1;
    }
    o
}
/// the 256 "edge" inputs: within 32 patterns of 0, 0x4000 (1), 0x8000 (NaR) and 0xC000 (-1); entry (q << 6 | k) is the
/// result for input (q << 14) + k - 32 (mod 2^16)
const fn cut_edges(full: &[u16; 65536]) -> [u16; 256] {
    let mut o = [0u16; 256];
    let mut i = 0;
    while i < 256 {
        let x = (((i >> 6) << 14) + (i & 63) + 65536 - 32) & 0xffff;
        o[i] = full[x];
        i += 1;
    }
    o
}
#[inline(always)]
fn slice16<S: Src>(s: &mut S, k: u16, tab: &'static [u16; 4096], f: fn(P16E1) -> P16E1) -> Outcome {
    let x = s.u16();
    crate::assume!(s, x >> 12 == k);
    let got = f(P16E1::from_bits(x)).to_bits();
    cover!(x & 1 == 1);
    Outcome::eq(got as u64, tab[(x & 0xfff) as usize] as u64)
}
#[inline(always)]
fn edges16<S: Src>(s: &mut S, tab: &'static [u16; 256], f: fn(P16E1) -> P16E1) -> Outcome {
    let x = s.u16();
    let xs = x.wrapping_add(32);
    crate::assume!(s, xs & 0x3fff < 64);
    let got = f(P16E1::from_bits(x)).to_bits();
    cover!(x == 0x7fff);
    Outcome::eq(got as u64, tab[((xs >> 14) << 6 | (xs & 63)) as usize] as u64)
}

macro_rules! f16 {
    ($method:ident, $full:ident, $edge_fn:ident $edge_tab:ident, $($name:ident $tab:ident $k:expr),*) => {
        $(
            static $tab: [u16; 4096] = cut::<$k>(&t::$full);
            pub fn $name<S: Src>(s: &mut S) -> Outcome {
                slice16(s, $k, &$tab, |p| p.$method())
            }
        )*
        static $edge_tab: [u16; 256] = cut_edges(&t::$full);
        pub fn $edge_fn<S: Src>(s: &mut S) -> Outcome {
            edges16(s, &$edge_tab, |p| p.$method())
        }
    };
}
f16!(exp, EXP16, exp_edges EXP16_EDGES, exp_s0 EXP16_S0 0, exp_s1 EXP16_S1 1, exp_s2 EXP16_S2 2, exp_s3 EXP16_S3 3, exp_s4 EXP16_S4 4, exp_s5 EXP16_S5 5, exp_s6 EXP16_S6 6, exp_s7 EXP16_S7 7, exp_s8 EXP16_S8 8, exp_s9 EXP16_S9 9, exp_sa EXP16_SA 10, exp_sb EXP16_SB 11, exp_sc EXP16_SC 12, exp_sd EXP16_SD 13, exp_se EXP16_SE 14, exp_sf EXP16_SF 15);
f16!(exp2, EXP2_16, exp2_edges EXP2_16_EDGES, exp2_s0 EXP2_16_S0 0, exp2_s1 EXP2_16_S1 1, exp2_s2 EXP2_16_S2 2, exp2_s3 EXP2_16_S3 3, exp2_s4 EXP2_16_S4 4, exp2_s5 EXP2_16_S5 5, exp2_s6 EXP2_16_S6 6, exp2_s7 EXP2_16_S7 7, exp2_s8 EXP2_16_S8 8, exp2_s9 EXP2_16_S9 9, exp2_sa EXP2_16_SA 10, exp2_sb EXP2_16_SB 11, exp2_sc EXP2_16_SC 12, exp2_sd EXP2_16_SD 13, exp2_se EXP2_16_SE 14, exp2_sf EXP2_16_SF 15);
f16!(ln, LN16, ln_edges LN16_EDGES, ln_s0 LN16_S0 0, ln_s1 LN16_S1 1, ln_s2 LN16_S2 2, ln_s3 LN16_S3 3, ln_s4 LN16_S4 4, ln_s5 LN16_S5 5, ln_s6 LN16_S6 6, ln_s7 LN16_S7 7, ln_s8 LN16_S8 8, ln_s9 LN16_S9 9, ln_sa LN16_SA 10, ln_sb LN16_SB 11, ln_sc LN16_SC 12, ln_sd LN16_SD 13, ln_se LN16_SE 14, ln_sf LN16_SF 15);
f16!(log2, LOG2_16, log2_edges LOG2_16_EDGES, log2_s0 LOG2_16_S0 0, log2_s1 LOG2_16_S1 1, log2_s2 LOG2_16_S2 2, log2_s3 LOG2_16_S3 3, log2_s4 LOG2_16_S4 4, log2_s5 LOG2_16_S5 5, log2_s6 LOG2_16_S6 6, log2_s7 LOG2_16_S7 7, log2_s8 LOG2_16_S8 8, log2_s9 LOG2_16_S9 9, log2_sa LOG2_16_SA 10, log2_sb LOG2_16_SB 11, log2_sc LOG2_16_SC 12, log2_sd LOG2_16_SD 13, log2_se LOG2_16_SE 14, log2_sf LOG2_16_SF 15);
f16!(sin_pi, SINPI16, sin_pi_edges SINPI16_EDGES, sin_pi_s0 SINPI16_S0 0, sin_pi_s1 SINPI16_S1 1, sin_pi_s2 SINPI16_S2 2, sin_pi_s3 SINPI16_S3 3, sin_pi_s4 SINPI16_S4 4, sin_pi_s5 SINPI16_S5 5, sin_pi_s6 SINPI16_S6 6, sin_pi_s7 SINPI16_S7 7, sin_pi_s8 SINPI16_S8 8, sin_pi_s9 SINPI16_S9 9, sin_pi_sa SINPI16_SA 10, sin_pi_sb SINPI16_SB 11, sin_pi_sc SINPI16_SC 12, sin_pi_sd SINPI16_SD 13, sin_pi_se SINPI16_SE 14, sin_pi_sf SINPI16_SF 15);
f16!(cos_pi, COSPI16, cos_pi_edges COSPI16_EDGES, cos_pi_s0 COSPI16_S0 0, cos_pi_s1 COSPI16_S1 1, cos_pi_s2 COSPI16_S2 2, cos_pi_s3 COSPI16_S3 3, cos_pi_s4 COSPI16_S4 4, cos_pi_s5 COSPI16_S5 5, cos_pi_s6 COSPI16_S6 6, cos_pi_s7 COSPI16_S7 7, cos_pi_s8 COSPI16_S8 8, cos_pi_s9 COSPI16_S9 9, cos_pi_sa COSPI16_SA 10, cos_pi_sb COSPI16_SB 11, cos_pi_sc COSPI16_SC 12, cos_pi_sd COSPI16_SD 13, cos_pi_se COSPI16_SE 14, cos_pi_sf COSPI16_SF 15);
f16!(tan_pi, TANPI16, tan_pi_edges TANPI16_EDGES, tan_pi_s0 TANPI16_S0 0, tan_pi_s1 TANPI16_S1 1, tan_pi_s2 TANPI16_S2 2, tan_pi_s3 TANPI16_S3 3, tan_pi_s4 TANPI16_S4 4, tan_pi_s5 TANPI16_S5 5, tan_pi_s6 TANPI16_S6 6, tan_pi_s7 TANPI16_S7 7, tan_pi_s8 TANPI16_S8 8, tan_pi_s9 TANPI16_S9 9, tan_pi_sa TANPI16_SA 10, tan_pi_sb TANPI16_SB 11, tan_pi_sc TANPI16_SC 12, tan_pi_sd TANPI16_SD 13, tan_pi_se TANPI16_SE 14, tan_pi_sf TANPI16_SF 15);
f16!(asin_pi, ASINPI16, asin_pi_edges ASINPI16_EDGES, asin_pi_s0 ASINPI16_S0 0, asin_pi_s1 ASINPI16_S1 1, asin_pi_s2 ASINPI16_S2 2, asin_pi_s3 ASINPI16_S3 3, asin_pi_s4 ASINPI16_S4 4, asin_pi_s5 ASINPI16_S5 5, asin_pi_s6 ASINPI16_S6 6, asin_pi_s7 ASINPI16_S7 7, asin_pi_s8 ASINPI16_S8 8, asin_pi_s9 ASINPI16_S9 9, asin_pi_sa ASINPI16_SA 10, asin_pi_sb ASINPI16_SB 11, asin_pi_sc ASINPI16_SC 12, asin_pi_sd ASINPI16_SD 13, asin_pi_se ASINPI16_SE 14, asin_pi_sf ASINPI16_SF 15);
f16!(acos_pi, ACOSPI16, acos_pi_edges ACOSPI16_EDGES, acos_pi_s0 ACOSPI16_S0 0, acos_pi_s1 ACOSPI16_S1 1, acos_pi_s2 ACOSPI16_S2 2, acos_pi_s3 ACOSPI16_S3 3, acos_pi_s4 ACOSPI16_S4 4, acos_pi_s5 ACOSPI16_S5 5, acos_pi_s6 ACOSPI16_S6 6, acos_pi_s7 ACOSPI16_S7 7, acos_pi_s8 ACOSPI16_S8 8, acos_pi_s9 ACOSPI16_S9 9, acos_pi_sa ACOSPI16_SA 10, acos_pi_sb ACOSPI16_SB 11, acos_pi_sc ACOSPI16_SC 12, acos_pi_sd ACOSPI16_SD 13, acos_pi_se ACOSPI16_SE 14, acos_pi_sf ACOSPI16_SF 15);
f16!(atan_pi, ATANPI16, atan_pi_edges ATANPI16_EDGES, atan_pi_s0 ATANPI16_S0 0, atan_pi_s1 ATANPI16_S1 1, atan_pi_s2 ATANPI16_S2 2, atan_pi_s3 ATANPI16_S3 3, atan_pi_s4 ATANPI16_S4 4, atan_pi_s5 ATANPI16_S5 5, atan_pi_s6 ATANPI16_S6 6, atan_pi_s7 ATANPI16_S7 7, atan_pi_s8 ATANPI16_S8 8, atan_pi_s9 ATANPI16_S9 9, atan_pi_sa ATANPI16_SA 10, atan_pi_sb ATANPI16_SB 11, atan_pi_sc ATANPI16_SC 12, atan_pi_sd ATANPI16_SD 13, atan_pi_se ATANPI16_SE 14, atan_pi_sf ATANPI16_SF 15);

pub fn exp8<S: Src>(s: &mut S) -> Outcome {
    let x = s.u8();
    let got = P8E0::from_bits(x).exp().to_bits();
    cover!(x & 1 == 1);
    Outcome::eq(got as u64, t::EXP8[x as usize] as u64)
}
pub fn ln8<S: Src>(s: &mut S) -> Outcome {
    let x = s.u8();
    let got = P8E0::from_bits(x).ln().to_bits();
    cover!(x & 1 == 1);
    Outcome::eq(got as u64, t::LN8[x as usize] as u64)
}
