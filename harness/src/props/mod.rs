pub mod c02;
pub mod c03;
pub mod c07;
pub mod c08;
pub mod c09;
pub mod c10;
pub mod c19;
