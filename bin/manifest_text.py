NOTES = "Solver-based checking only (Kani/CBMC/CaDiCaL, plus SMT queries generated from the current source where registered). See DESIGN.md. Fixes to /repo are 'fix:' commits listed in known_findings.json."

COMMON_NOTE = ("Trusted: rustc MIR of Kani's toolchain, Kani's MIR->GOTO translation, CBMC bit-blasting, CaDiCaL's UNSAT answers, "
               "the reference model (validated natively against the crate and against a Fraction-based statement of the posit rule in bin/setup). "
               "Each verdict covers exactly the bound of its harness; unwinding assertions are on. ")

CLAIMS = {
    "C08": {
        "text": "Bounded model checking of the real conversion code against an independent encoder/decoder: for each of the six directed pairs the solver shows UNSAT for 'result != posit-rule rounding of the source value' over EVERY source bit pattern (2^8/2^16/2^32), plus exactness of widening and narrow(widen(p)) == p. The bound is the full input space; loops are regime scans with unwind 17/33 and checked unwinding assertions.",
        "design_ref": "§7 C08",
        "note": COMMON_NOTE,
        "technique": "Kani/CBMC bounded model checking vs reference model, all source bit patterns symbolic",
    },
}

NOT_APPLICABLE = {
    "C15": "P32E2 SLEEF-derived elementary functions: the claim is a max-ULP bound against transcendental functions for code that is a pipeline of 512-bit quire operations; no finite oracle can be given to the solver and symbolic execution of a single function does not finish (ln guard alone 851 s / 4 GB, sin > 25 min) — see DESIGN.md §7 C15",
}
