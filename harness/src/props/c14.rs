//! C14 generic-width conversions
use crate::refmodel as r;
use crate::{cover, Outcome, Src};
use softposit::{P16E1, P32E2, P8E0};

fn cmp_n(n: u32, got: u32, want: u32) -> Outcome {
    let sh = 32 - n;
    let low = if sh == 0 { 0 } else { got & ((1u32 << sh) - 1) };
    Outcome::eq(low as u64, 0).and(Outcome::eq((got >> sh) as u64, want as u64))
}

macro_rules! bodies {
    ($P:ident, $es:expr, $to_px:ident) => {
        use super::*;
        use softposit::$P;
        fn draw<const N: u32, S: Src>(s: &mut S) -> Option<u32> {
            let x = s.u32();
            if s.assume(x <= r::mask(N)) {
                Some(x)
            } else {
                None
            }
        }
        fn mk<const N: u32>(x: u32) -> $P<N> {
            $P::<N>::from_bits(x << (32 - N))
        }
        pub fn to_float<const N: u32, S: Src>(s: &mut S) -> Outcome {
            let x = match draw::<N, S>(s) {
                Some(x) => x,
                None => return Outcome::skip(),
            };
            let p = mk::<N>(x);
            let (g64, g32) = (p.to_f64(), p.to_f32());
            let (h64, h32) = (f64::from(p), f32::from(p));
            cover!(N <= 2 || x & 1 == 1 && r::sign_of(N, x));
            match (r::to_f64_bits(N, $es, x), r::to_f32_bits(N, $es, x)) {
                (Some(w64), Some(w32)) => Outcome::eq(g64.to_bits(), w64)
                    .and(Outcome::eq(h64.to_bits(), w64))
                    .and(Outcome::eq(g32.to_bits() as u64, w32 as u64))
                    .and(Outcome::eq(h32.to_bits() as u64, w32 as u64)),
                _ => Outcome::cond(g64.is_nan() && g32.is_nan() && h64.is_nan() && h32.is_nan()),
            }
        }
        /// floats with binary exponent in [-160, 160] (the scaling loops' bound), zero, NaN, inf
        pub fn from_f64<const N: u32, S: Src>(s: &mut S) -> Outcome {
            let f = s.u64();
            let ex = ((f >> 52) & 0x7ff) as i32;
            // the scaling loops run |exponent| / 2^es times: es = 2 stays below the unwind bound up to 2^160, es = 1 up to 2^90
            let eb = if $es == 1 { 90 } else { 160 };
            crate::assume!(s, ex == 0x7ff || (f << 1) == 0 || (ex >= 1023 - eb && ex <= 1023 + eb));
            let got = $P::<N>::from_f64(f64::from_bits(f)).to_bits();
            let got2 = $P::<N>::from(f64::from_bits(f)).to_bits();
            cover!(N <= 2 || (got >> (32 - N)) & 1 == 1 && f & 0xffff != 0);
            cmp_n(N, got, r::from_f64_bits(N, $es, f)).and(Outcome::eq(got2 as u64, got as u64))
        }
        /// the same, restricted to floats whose mantissa has at most MB significant bits (every sign, every exponent in
        /// [-160, 160]): cheap enough for the quick tier, and it contains the exact ties 1.5 * 2^e and all powers of two
        pub fn from_f64_short<const N: u32, const MB: u32, S: Src>(s: &mut S) -> Outcome {
            let f = s.u64();
            let ex = ((f >> 52) & 0x7ff) as i32;
            let eb = if $es == 1 { 90 } else { 160 };
            crate::assume!(s, ex >= 1023 - eb && ex <= 1023 + eb && f & ((1u64 << (52 - MB)) - 1) == 0);
            let got = $P::<N>::from_f64(f64::from_bits(f)).to_bits();
            cover!(N <= 2 || (got >> (32 - N)) & 1 == 1 && (f >> (52 - MB)) & 1 == 1);
            cmp_n(N, got, r::from_f64_bits(N, $es, f))
        }
        pub fn from_f32<const N: u32, S: Src>(s: &mut S) -> Outcome {
            let f = s.u32();
            let ex = ((f >> 23) & 0xff) as i32;
            let eb = if $es == 1 { 90 } else { 126 };
            crate::assume!(s, ex == 0xff || (f << 1) == 0 || (ex >= 127 - eb && ex <= 127 + eb));
            let got = $P::<N>::from_f32(f32::from_bits(f)).to_bits();
            let got2 = $P::<N>::from(f32::from_bits(f)).to_bits();
            cover!(N <= 2 || (got >> (32 - N)) & 1 == 1 && f & 0xff != 0);
            cmp_n(N, got, r::from_f32_bits(N, $es, f)).and(Outcome::eq(got2 as u64, got as u64))
        }
        /// KIND: 0 to_i32, 1 to_u32, 2 to_i64, 3 to_u64 (all four in one harness)
        pub fn to_int<const N: u32, S: Src>(s: &mut S) -> Outcome {
            let x = match draw::<N, S>(s) {
                Some(x) => x,
                None => return Outcome::skip(),
            };
            crate::assume!(s, x != r::nar(N));
            let p = mk::<N>(x);
            cover!(N <= 3 || x & 1 == 1 && r::to_int(N, $es, x, false, 64) > 2);
            Outcome::eq(p.to_i32() as u32 as u64, r::to_int(N, $es, x, true, 32))
                .and(Outcome::eq(p.to_u32() as u64, r::to_int(N, $es, x, false, 32)))
                .and(Outcome::eq(p.to_i64() as u64, r::to_int(N, $es, x, true, 64)))
                .and(Outcome::eq(p.to_u64(), r::to_int(N, $es, x, false, 64)))
                .and(Outcome::eq(i32::from(p) as u32 as u64, r::to_int(N, $es, x, true, 32)))
                .and(Outcome::eq(u64::from(p), r::to_int(N, $es, x, false, 64)))
        }
        /// to the fixed-width types
        pub fn to_fixed<const N: u32, S: Src>(s: &mut S) -> Outcome {
            let x = match draw::<N, S>(s) {
                Some(x) => x,
                None => return Outcome::skip(),
            };
            let p = mk::<N>(x);
            cover!(N <= 2 || x & 1 == 1);
            Outcome::eq(p.to_p32e2().to_bits() as u64, r::p2p(N, $es, 32, 2, x) as u64)
                .and(Outcome::eq(P32E2::from(p).to_bits() as u64, r::p2p(N, $es, 32, 2, x) as u64))
                .and(Outcome::eq(p.to_p16e1().to_bits() as u64, r::p2p(N, $es, 16, 1, x) as u64))
                .and(Outcome::eq(P16E1::from(p).to_bits() as u64, r::p2p(N, $es, 16, 1, x) as u64))
                .and(Outcome::eq(p.to_p8e0().to_bits() as u64, r::p2p(N, $es, 8, 0, x) as u64))
                .and(Outcome::eq(P8E0::from(p).to_bits() as u64, r::p2p(N, $es, 8, 0, x) as u64))
        }
        pub fn from_p32<const N: u32, S: Src>(s: &mut S) -> Outcome {
            let x = s.u32();
            let got = $P::<N>::from_p32e2(P32E2::from_bits(x)).to_bits();
            let got2 = $P::<N>::from(P32E2::from_bits(x)).to_bits();
            let got3 = P32E2::from_bits(x).$to_px::<N>().to_bits();
            cover!(N <= 2 || (got >> (32 - N)) & 1 == 1 && x & 0xff != 0);
            cmp_n(N, got, r::p2p(32, 2, N, $es, x)).and(Outcome::eq(got2 as u64, got as u64)).and(Outcome::eq(got3 as u64, got as u64))
        }
        pub fn from_p16<const N: u32, S: Src>(s: &mut S) -> Outcome {
            let x = s.u16();
            let got = $P::<N>::from_p16e1(P16E1::from_bits(x)).to_bits();
            let got2 = $P::<N>::from(P16E1::from_bits(x)).to_bits();
            cover!(N <= 2 || x & 1 == 1);
            cmp_n(N, got, r::p2p(16, 1, N, $es, x as u32)).and(Outcome::eq(got2 as u64, got as u64))
        }
        pub fn from_p8<const N: u32, S: Src>(s: &mut S) -> Outcome {
            let x = s.u8();
            let got = $P::<N>::from_p8e0(P8E0::from_bits(x)).to_bits();
            let got2 = $P::<N>::from(P8E0::from_bits(x)).to_bits();
            cover!(N <= 2 || x & 1 == 1);
            cmp_n(N, got, r::p2p(8, 0, N, $es, x as u32)).and(Outcome::eq(got2 as u64, got as u64))
        }
    };
}
pub mod pxe2 {
    bodies!(PxE2, 2, to_pxe2);
    /// K: 0 from_u64, 1 from_i64, 2 from_u32, 3 from_i32 (inherent and From spellings)
    pub fn from_int<const N: u32, const K: u32, S: Src>(s: &mut S) -> Outcome {
        let v = s.u64();
        cover!(N <= 2 || v > 1000 && r::from_u64(N, 2, v) & 1 == 1);
        match K {
            0 => cmp_n(N, PxE2::<N>::from_u64(v).to_bits(), r::from_u64(N, 2, v)).and(cmp_n(N, PxE2::<N>::from(v).to_bits(), r::from_u64(N, 2, v))),
            1 => cmp_n(N, PxE2::<N>::from_i64(v as i64).to_bits(), r::from_i64(N, 2, v as i64)).and(cmp_n(N, PxE2::<N>::from(v as i64).to_bits(), r::from_i64(N, 2, v as i64))),
            2 => cmp_n(N, PxE2::<N>::from_u32(v as u32).to_bits(), r::from_u64(N, 2, v as u32 as u64)).and(cmp_n(N, PxE2::<N>::from(v as u32).to_bits(), r::from_u64(N, 2, v as u32 as u64))),
            _ => cmp_n(N, PxE2::<N>::from_i32(v as i32).to_bits(), r::from_i64(N, 2, v as i32 as i64)).and(cmp_n(N, PxE2::<N>::from(v as i32).to_bits(), r::from_i64(N, 2, v as i32 as i64))),
        }
    }
    /// K = 0: PxE2<M> -> PxE2<N>;  K = 1: PxE2<M> -> PxE1<N>
    pub fn to_generic<const M: u32, const N: u32, const K: u32, S: Src>(s: &mut S) -> Outcome {
        let x = match draw::<M, S>(s) {
            Some(x) => x,
            None => return Outcome::skip(),
        };
        let p = mk::<M>(x);
        cover!(M <= 2 || x & 1 == 1);
        if K == 0 {
            cmp_n(N, PxE2::<N>::from_pxe2(p).to_bits(), r::p2p(M, 2, N, 2, x))
        } else {
            cmp_n(N, p.to_pxe1::<N>().to_bits(), r::p2p(M, 2, N, 1, x)).and(cmp_n(N, softposit::PxE1::<N>::from(p).to_bits(), r::p2p(M, 2, N, 1, x)))
        }
    }
    /// Q32E2 -> PxE2<N> on an arbitrary state; PxE2<N> -> Q32E2 -> PxE2<N> round trip
    pub fn from_quire<const N: u32, S: Src>(s: &mut S) -> Outcome {
        use softposit::Q32E2;
        let v = crate::props::c04::draw512(s);
        let got = PxE2::<N>::from(Q32E2::from_bits(v)).to_bits();
        cover!(N <= 2 || (got >> (32 - N)) & 1 == 1 && v[0] >> 63 == 1);
        cmp_n(N, got, r::quire512_to_posit(N, 2, &v))
    }
    pub fn quire_roundtrip<const N: u32, S: Src>(s: &mut S) -> Outcome {
        use softposit::Q32E2;
        let x = match draw::<N, S>(s) {
            Some(x) => x,
            None => return Outcome::skip(),
        };
        let q = Q32E2::from(mk::<N>(x));
        cover!(N <= 2 || x & 1 == 1);
        Outcome::eq(PxE2::<N>::from(q).to_bits() as u64, (x << (32 - N)) as u64)
    }
}
pub mod pxe1 {
    bodies!(PxE1, 1, to_pxe1);
    /// K: 0 from_u64, 3 from_i32 (from_i64 and from_u32 are todo!() stubs)
    pub fn from_int<const N: u32, const K: u32, S: Src>(s: &mut S) -> Outcome {
        let v = s.u64();
        cover!(N <= 2 || v > 1000 && r::from_u64(N, 1, v) & 1 == 1);
        match K {
            0 => cmp_n(N, PxE1::<N>::from_u64(v).to_bits(), r::from_u64(N, 1, v)),
            _ => cmp_n(N, PxE1::<N>::from_i32(v as i32).to_bits(), r::from_i64(N, 1, v as i32 as i64)),
        }
    }
    /// PxE1<M> -> PxE2<N> (K unused)
    pub fn to_generic<const M: u32, const N: u32, const K: u32, S: Src>(s: &mut S) -> Outcome {
        let x = match draw::<M, S>(s) {
            Some(x) => x,
            None => return Outcome::skip(),
        };
        let p = mk::<M>(x);
        cover!(M <= 2 || x & 1 == 1);
        cmp_n(N, p.to_pxe2::<N>().to_bits(), r::p2p(M, 1, N, 2, x)).and(cmp_n(N, softposit::PxE2::<N>::from(p).to_bits(), r::p2p(M, 1, N, 2, x)))
    }
}
