//! C17 all spellings of one operation agree
use crate::{cover, Outcome, Src};
use num_traits::{Bounded, Float, FloatConst, FromPrimitive, NumCast, One, Signed, ToPrimitive, Zero};
use softposit::MathConsts;

/// native side: run a closure, None if it panicked (todo!() bodies). Under Kani this branch is dead
/// code, but it is still compiled, and Kani's compiler crashes on the catch_unwind intrinsic.
#[cfg(not(kani))]
fn guarded<T>(f: impl FnOnce() -> T + std::panic::UnwindSafe) -> Option<T> {
    let hook = std::panic::take_hook();
    std::panic::set_hook(Box::new(|_| {}));
    let r = std::panic::catch_unwind(f).ok();
    std::panic::set_hook(hook);
    r
}
#[cfg(kani)]
fn guarded<T>(f: impl FnOnce() -> T) -> Option<T> {
    Some(f())
}
fn opt_eq(a: Option<u64>, b: Option<u64>) -> Outcome {
    match (a, b) {
        (Some(x), Some(y)) => Outcome::eq(x, y),
        (None, None) => Outcome::cond(true),
        (Some(x), None) => Outcome::eq(x, u64::MAX - 1),
        (None, Some(y)) => Outcome::eq(u64::MAX - 1, y),
    }
}

// LIST fwd1: sqrt exp exp2 ln log2 log10 cbrt sin cos tan asin acos atan exp_m1 ln_1p sinh cosh tanh asinh acosh atanh recip
// LIST fwd2: powf log hypot atan2
// LIST ops2: div rem div_assign rem_assign
macro_rules! bodies {
    ($P:ty, $draw:ident, $mk:ident, $Q:ty) => {
        use super::*;
        use crate::stubs::$mk as mk;
        type P = $P;
        fn b(p: P) -> u64 {
            p.to_bits() as u64
        }
        /// (P) -> P forwarders of num_traits::Float whose inherent target is stubbed by a call marker
        pub fn fwd1<const M: u32, S: Src>(s: &mut S) -> Outcome {
            let x = s.$draw();
            let p = P::from_bits(x);
            macro_rules! go {
                ($meth:ident) => {{
                    if S::SYMBOLIC {
                        let z = <P as Float>::$meth(p);
                        let (calls, a, r) = unsafe { (mk::CALLS, mk::A, mk::R) };
                        cover!(x & 1 == 1);
                        Outcome::eq(calls as u64, 1).and(Outcome::eq(a, x as u64)).and(Outcome::eq(b(z), r))
                    } else {
                        opt_eq(guarded(move || b(<P as Float>::$meth(p))), guarded(move || b(P::$meth(p))))
                    }
                }};
            }
            match M {
                0 => go!(sqrt),
                1 => go!(exp),
                2 => go!(exp2),
                3 => go!(ln),
                4 => go!(log2),
                5 => go!(log10),
                6 => go!(cbrt),
                7 => go!(sin),
                8 => go!(cos),
                9 => go!(tan),
                10 => go!(asin),
                11 => go!(acos),
                12 => go!(atan),
                13 => go!(exp_m1),
                14 => go!(ln_1p),
                15 => go!(sinh),
                16 => go!(cosh),
                17 => go!(tanh),
                18 => go!(asinh),
                19 => go!(acosh),
                20 => go!(atanh),
                _ => go!(recip),
            }
        }
        pub fn fwd2<const M: u32, S: Src>(s: &mut S) -> Outcome {
            let (x, y) = (s.$draw(), s.$draw());
            let (p, q) = (P::from_bits(x), P::from_bits(y));
            macro_rules! go {
                ($meth:ident) => {{
                    if S::SYMBOLIC {
                        let z = <P as Float>::$meth(p, q);
                        let (calls, a, bb, r) = unsafe { (mk::CALLS, mk::A, mk::B, mk::R) };
                        cover!(x & 1 == 1 && y & 1 == 0);
                        Outcome::eq(calls as u64, 1).and(Outcome::eq(a, x as u64)).and(Outcome::eq(bb, y as u64)).and(Outcome::eq(b(z), r))
                    } else {
                        opt_eq(guarded(move || b(<P as Float>::$meth(p, q))), guarded(move || b(P::$meth(p, q))))
                    }
                }};
            }
            match M {
                0 => go!(powf),
                1 => go!(log),
                2 => go!(hypot),
                _ => go!(atan2),
            }
        }
        /// operators whose inherent target divides: `/`, `%`, `/=`, `%=`
        pub fn ops2<const M: u32, S: Src>(s: &mut S) -> Outcome {
            let (x, y) = (s.$draw(), s.$draw());
            let (p, q) = (P::from_bits(x), P::from_bits(y));
            let fwd = move || match M {
                0 => p / q,
                1 => p % q,
                2 => {
                    let mut t = p;
                    t /= q;
                    t
                }
                _ => {
                    let mut t = p;
                    t %= q;
                    t
                }
            };
            if S::SYMBOLIC {
                let z = fwd();
                let (calls, a, bb, r) = unsafe { (mk::CALLS, mk::A, mk::B, mk::R) };
                cover!(x & 1 == 1 && y & 1 == 0);
                Outcome::eq(calls as u64, 1).and(Outcome::eq(a, x as u64)).and(Outcome::eq(bb, y as u64)).and(Outcome::eq(b(z), r))
            } else {
                opt_eq(guarded(move || b(fwd())), guarded(move || b(if M & 1 == 0 { p.div(q) } else { p.rem(q) })))
            }
        }
        pub fn fwd_mul_add<S: Src>(s: &mut S) -> Outcome {
            let (x, y, z) = (s.$draw(), s.$draw(), s.$draw());
            let (p, q, t) = (P::from_bits(x), P::from_bits(y), P::from_bits(z));
            if S::SYMBOLIC {
                let w = <P as Float>::mul_add(p, q, t);
                let (calls, a, bb, c, r) = unsafe { (mk::CALLS, mk::A, mk::B, mk::C, mk::R) };
                cover!(x & 1 == 1 && y & 1 == 0);
                Outcome::eq(calls as u64, 1).and(Outcome::eq(a, x as u64)).and(Outcome::eq(bb, y as u64)).and(Outcome::eq(c, z as u64)).and(Outcome::eq(b(w), r))
            } else {
                Outcome::eq(b(<P as Float>::mul_add(p, q, t)), b(p.mul_add(q, t)))
            }
        }
        pub fn fwd_powi<S: Src>(s: &mut S) -> Outcome {
            let x = s.$draw();
            let n = s.u32() as i32;
            let p = P::from_bits(x);
            if S::SYMBOLIC {
                let w = <P as Float>::powi(p, n);
                let (calls, a, bb, r) = unsafe { (mk::CALLS, mk::A, mk::B, mk::R) };
                cover!(x & 1 == 1 && n < 0);
                Outcome::eq(calls as u64, 1).and(Outcome::eq(a, x as u64)).and(Outcome::eq(bb, n as u32 as u64)).and(Outcome::eq(b(w), r))
            } else {
                opt_eq(guarded(move || b(<P as Float>::powi(p, n))), guarded(move || b(p.powi(n))))
            }
        }
        pub fn fwd_sin_cos<S: Src>(s: &mut S) -> Outcome {
            let x = s.$draw();
            let p = P::from_bits(x);
            if S::SYMBOLIC {
                let (w1, w2) = <P as Float>::sin_cos(p);
                let (calls, a, r, r2) = unsafe { (mk::CALLS, mk::A, mk::R, mk::R2) };
                cover!(x & 1 == 1);
                Outcome::eq(calls as u64, 1).and(Outcome::eq(a, x as u64)).and(Outcome::eq(b(w1), r)).and(Outcome::eq(b(w2), r2))
            } else {
                opt_eq(guarded(move || { let (u, v) = <P as Float>::sin_cos(p); (b(u) << 32) | b(v) }), guarded(move || { let (u, v) = p.sin_cos(); (b(u) << 32) | b(v) }))
            }
        }
        /// cheap unary forwarders, compared directly (two copies of a cheap body)
        pub fn direct1<S: Src>(s: &mut S) -> Outcome {
            let x = s.$draw();
            let p = P::from_bits(x);
            cover!(x & 1 == 1 && (x as u64) >> (P::BITS - 1) == 1);
            let ok = b(<P as Float>::floor(p)) == b(p.floor())
                && b(<P as Float>::ceil(p)) == b(p.ceil())
                && b(<P as Float>::round(p)) == b(p.round())
                && b(<P as Float>::trunc(p)) == b(p.trunc())
                && b(<P as Float>::fract(p)) == b(p.fract())
                && b(<P as Float>::abs(p)) == b(p.abs())
                && b(<P as Float>::signum(p)) == b(p.signum())
                && <P as Float>::is_sign_positive(p) == p.is_sign_positive()
                && <P as Float>::is_sign_negative(p) == p.is_sign_negative()
                && <P as Float>::is_nan(p) == p.is_nan()
                && <P as Float>::is_infinite(p) == p.is_infinite()
                && <P as Float>::is_finite(p) == p.is_finite()
                && <P as Float>::is_normal(p) == p.is_normal()
                && <P as Float>::classify(p) == p.classify()
                && b(<P as Signed>::abs(&p)) == b(p.abs())
                && b(<P as Signed>::signum(&p)) == b(p.signum())
                && <P as Signed>::is_negative(&p) == (p.is_sign_negative() && !p.is_nar() || p.is_nar())
                && <P as Signed>::is_positive(&p) == !<P as Signed>::is_negative(&p)
                && <P as Zero>::is_zero(&p) == p.is_zero()
                && <P as One>::is_one(&p) == (b(p) == b(P::ONE))
                && b(core::ops::Neg::neg(p)) == b(p.neg())
                && <P as ToPrimitive>::to_i64(&p) == Some(p.to_i64())
                && <P as ToPrimitive>::to_u64(&p) == Some(p.to_u64())
                && <P as ToPrimitive>::to_f64(&p).map(|f| f.to_bits()) == Some(p.to_f64().to_bits())
                && <P as NumCast>::from(p).map(b) == Some(b(P::from_f64(p.to_f64())));
            Outcome::cond(ok)
        }
        pub fn direct2<S: Src>(s: &mut S) -> Outcome {
            let (x, y) = (s.$draw(), s.$draw());
            let (p, q) = (P::from_bits(x), P::from_bits(y));
            cover!(x & 1 == 1 && y & 1 == 1 && x != y);
            Outcome::eq(b(<P as Float>::max(p, q)), b(p.max(q))).and(Outcome::eq(b(<P as Float>::min(p, q)), b(p.min(q))))
        }
        /// num_traits::Signed::abs_sub ("positive difference") has no inherent twin: it must be zero when
        /// self <= other and the inherent subtraction otherwise
        pub fn signed_abs_sub<S: Src>(s: &mut S) -> Outcome {
            let (x, y) = (s.$draw(), s.$draw());
            let (p, q) = (P::from_bits(x), P::from_bits(y));
            cover!(x & 1 == 1 && y & 1 == 1 && p.gt(q));
            let want = if p.le(q) { P::ZERO } else { p.sub(q) };
            Outcome::eq(b(<P as Signed>::abs_sub(&p, &q)), b(want))
        }
        pub fn from_primitive<S: Src>(s: &mut S) -> Outcome {
            let v = s.u64();
            cover!(v > 1 << 40);
            let ok = <P as FromPrimitive>::from_i8(v as i8).map(b) == Some(b(P::from_i8(v as i8)))
                && <P as FromPrimitive>::from_i16(v as i16).map(b) == Some(b(P::from_i16(v as i16)))
                && <P as FromPrimitive>::from_i32(v as i32).map(b) == Some(b(P::from_i32(v as i32)))
                && <P as FromPrimitive>::from_i64(v as i64).map(b) == Some(b(P::from_i64(v as i64)))
                && <P as FromPrimitive>::from_u8(v as u8).map(b) == Some(b(P::from_u8(v as u8)))
                && <P as FromPrimitive>::from_u16(v as u16).map(b) == Some(b(P::from_u16(v as u16)))
                && <P as FromPrimitive>::from_u32(v as u32).map(b) == Some(b(P::from_u32(v as u32)))
                && <P as FromPrimitive>::from_u64(v).map(b) == Some(b(P::from_u64(v)))
                && <P as FromPrimitive>::from_f32(f32::from_bits(v as u32)).map(b) == Some(b(P::from_f32(f32::from_bits(v as u32))))
                && <P as FromPrimitive>::from_f64(f64::from_bits(v)).map(b) == Some(b(P::from_f64(f64::from_bits(v))))
                && b(Into::<P>::into(v as i32)) == b(P::from_i32(v as i32))
                && b(Into::<P>::into(f64::from_bits(v))) == b(P::from_f64(f64::from_bits(v)));
            Outcome::cond(ok)
        }
        /// every `From` impl between the posit type and a primitive, both directions, vs the inherent conversion
        pub fn from_into<S: Src>(s: &mut S) -> Outcome {
            let v = s.u64();
            let x = s.$draw();
            let p = P::from_bits(x);
            cover!(v > 1 << 54 && v & 1 == 1 && x & 1 == 1);
            let ok = b(<P as From<i8>>::from(v as i8)) == b(P::from_i8(v as i8))
                && b(<P as From<i16>>::from(v as i16)) == b(P::from_i16(v as i16))
                && b(<P as From<i32>>::from(v as i32)) == b(P::from_i32(v as i32))
                && b(<P as From<i64>>::from(v as i64)) == b(P::from_i64(v as i64))
                && b(<P as From<isize>>::from(v as isize)) == b(P::from_isize(v as isize))
                && b(<P as From<u8>>::from(v as u8)) == b(P::from_u8(v as u8))
                && b(<P as From<u16>>::from(v as u16)) == b(P::from_u16(v as u16))
                && b(<P as From<u32>>::from(v as u32)) == b(P::from_u32(v as u32))
                && b(<P as From<u64>>::from(v)) == b(P::from_u64(v))
                && b(<P as From<usize>>::from(v as usize)) == b(P::from_usize(v as usize))
                && b(<P as From<f32>>::from(f32::from_bits(v as u32))) == b(P::from_f32(f32::from_bits(v as u32)))
                && b(<P as From<f64>>::from(f64::from_bits(v))) == b(P::from_f64(f64::from_bits(v)))
                && b(P::from_isize(v as isize)) == b(P::from_i64(v as i64))
                && b(P::from_usize(v as usize)) == b(P::from_u64(v))
                && <i8 as From<P>>::from(p) == p.to_i8()
                && <i16 as From<P>>::from(p) == p.to_i16()
                && <i32 as From<P>>::from(p) == p.to_i32()
                && <i64 as From<P>>::from(p) == p.to_i64()
                && <isize as From<P>>::from(p) == p.to_isize()
                && <u8 as From<P>>::from(p) == p.to_u8()
                && <u16 as From<P>>::from(p) == p.to_u16()
                && <u32 as From<P>>::from(p) == p.to_u32()
                && <u64 as From<P>>::from(p) == p.to_u64()
                && <usize as From<P>>::from(p) == p.to_usize()
                && <f32 as From<P>>::from(p).to_bits() == p.to_f32().to_bits()
                && <f64 as From<P>>::from(p).to_bits() == p.to_f64().to_bits()
                && p.to_isize() as i64 == p.to_i64()
                && p.to_usize() as u64 == p.to_u64();
            Outcome::cond(ok)
        }
        pub fn constants<S: Src>(_s: &mut S) -> Outcome {
            cover!(true);
            let ok = b(<P as Float>::nan()) == b(P::NAR)
                && b(<P as Float>::infinity()) == b(P::NAR)
                && b(<P as Float>::neg_infinity()) == b(P::NAR)
                && b(<P as Float>::neg_zero()) == b(P::ZERO)
                && b(<P as Float>::min_value()) == b(P::MIN)
                && b(<P as Float>::max_value()) == b(P::MAX)
                && b(<P as Float>::min_positive_value()) == b(P::MIN_POSITIVE)
                && b(<P as Bounded>::min_value()) == b(P::MIN)
                && b(<P as Bounded>::max_value()) == b(P::MAX)
                && b(<P as Zero>::zero()) == b(P::ZERO)
                && b(<P as One>::one()) == b(P::ONE)
                && b(<P as FloatConst>::E()) == b(<P as MathConsts>::E)
                && b(<P as FloatConst>::FRAC_1_PI()) == b(<P as MathConsts>::FRAC_1_PI)
                && b(<P as FloatConst>::FRAC_1_SQRT_2()) == b(<P as MathConsts>::FRAC_1_SQRT_2)
                && b(<P as FloatConst>::FRAC_2_PI()) == b(<P as MathConsts>::FRAC_2_PI)
                && b(<P as FloatConst>::FRAC_2_SQRT_PI()) == b(<P as MathConsts>::FRAC_2_SQRT_PI)
                && b(<P as FloatConst>::FRAC_PI_2()) == b(<P as MathConsts>::FRAC_PI_2)
                && b(<P as FloatConst>::FRAC_PI_3()) == b(<P as MathConsts>::FRAC_PI_3)
                && b(<P as FloatConst>::FRAC_PI_4()) == b(<P as MathConsts>::FRAC_PI_4)
                && b(<P as FloatConst>::FRAC_PI_6()) == b(<P as MathConsts>::FRAC_PI_6)
                && b(<P as FloatConst>::FRAC_PI_8()) == b(<P as MathConsts>::FRAC_PI_8)
                && b(<P as FloatConst>::LN_10()) == b(<P as MathConsts>::LN_10)
                && b(<P as FloatConst>::LN_2()) == b(<P as MathConsts>::LN_2)
                && b(<P as FloatConst>::LOG10_E()) == b(<P as MathConsts>::LOG10_E)
                && b(<P as FloatConst>::LOG2_E()) == b(<P as MathConsts>::LOG2_E)
                && b(<P as FloatConst>::PI()) == b(<P as MathConsts>::PI)
                && b(<P as FloatConst>::SQRT_2()) == b(<P as MathConsts>::SQRT_2);
            // type aliases and the associated quire are compile-time identities
            let _q: <P as softposit::AssociatedQuire<P>>::Q = <$Q>::init();
            Outcome::cond(ok)
        }
    };
}
pub mod p8 {
    bodies!(softposit::P8E0, u8, mp8, softposit::Q8E0);
    pub fn aliases() {
        let _: softposit::P8 = softposit::P8E0::ZERO;
        let _: softposit::Q8 = softposit::Q8E0::init();
    }
}
pub mod p16 {
    bodies!(softposit::P16E1, u16, mp16, softposit::Q16E1);
    pub fn aliases() {
        let _: softposit::P16 = softposit::P16E1::ZERO;
        let _: softposit::Q16 = softposit::Q16E1::init();
    }
}
pub mod p32 {
    bodies!(softposit::P32E2, u32, mp32, softposit::Q32E2);
    pub fn aliases() {
        let _: softposit::P32 = softposit::P32E2::ZERO;
        let _: softposit::Q32 = softposit::Q32E2::init();
    }
}

// ---- Quire trait methods vs inherent, on the same arbitrary state (two copies of the same body)
pub mod quire {
    use super::*;
    use softposit::{Quire, P16E1, P32E2, P8E0, Q16E1, Q32E2, Q8E0};
    pub fn q8<S: Src>(s: &mut S) -> Outcome {
        let v = s.u32();
        let (a, bb) = (P8E0::from_bits(s.u8()), P8E0::from_bits(s.u8()));
        let mut t = <Q8E0 as Quire<P8E0>>::from_bits(v);
        let mut i = Q8E0::from_bits(v);
        let pre = <Q8E0 as Quire<P8E0>>::to_bits(&t) == i.to_bits()
            && <Q8E0 as Quire<P8E0>>::is_zero(&t) == i.is_zero()
            && <Q8E0 as Quire<P8E0>>::is_nar(&t) == i.is_nar()
            && <Q8E0 as Quire<P8E0>>::to_posit(&t).to_bits() == i.to_posit().to_bits();
        <Q8E0 as Quire<P8E0>>::add_product(&mut t, a, bb);
        i.add_product(a, bb);
        let s1 = t.to_bits() == i.to_bits();
        let mut t2 = Q8E0::from_bits(v);
        t2 += (a, bb);
        let s1b = t2.to_bits() == i.to_bits();
        <Q8E0 as Quire<P8E0>>::sub_product(&mut t, bb, a);
        i.sub_product(bb, a);
        let s2 = t.to_bits() == i.to_bits();
        <Q8E0 as Quire<P8E0>>::neg(&mut t);
        i.neg();
        let s3 = t.to_bits() == i.to_bits();
        <Q8E0 as Quire<P8E0>>::clear(&mut t);
        i.clear();
        let s4 = t.to_bits() == i.to_bits();
        let s5 = <Q8E0 as Quire<P8E0>>::init().to_bits() == Q8E0::init().to_bits()
            && <Q8E0 as Quire<P8E0>>::from_posit(a).to_bits() == Q8E0::from_posit(a).to_bits();
        cover!(v != 0 && a.to_bits() & 1 == 1);
        Outcome::cond(pre && s1 && s1b && s2 && s3 && s4 && s5)
    }
    pub fn q16<S: Src>(s: &mut S) -> Outcome {
        let v = ((s.u64() as u128) << 64) | s.u64() as u128;
        let (a, bb) = (P16E1::from_bits(s.u16()), P16E1::from_bits(s.u16()));
        let mut t = <Q16E1 as Quire<P16E1>>::from_bits(v);
        let mut i = Q16E1::from_bits(v);
        let pre = <Q16E1 as Quire<P16E1>>::to_bits(&t) == i.to_bits()
            && <Q16E1 as Quire<P16E1>>::is_zero(&t) == i.is_zero()
            && <Q16E1 as Quire<P16E1>>::is_nar(&t) == i.is_nar()
            && <Q16E1 as Quire<P16E1>>::to_posit(&t).to_bits() == i.to_posit().to_bits();
        <Q16E1 as Quire<P16E1>>::add_product(&mut t, a, bb);
        i.add_product(a, bb);
        let s1 = t.to_bits() == i.to_bits();
        let mut t2 = Q16E1::from_bits(v);
        t2 += (a, bb);
        let s1b = t2.to_bits() == i.to_bits();
        <Q16E1 as Quire<P16E1>>::sub_product(&mut t, bb, a);
        i.sub_product(bb, a);
        let s2 = t.to_bits() == i.to_bits();
        <Q16E1 as Quire<P16E1>>::neg(&mut t);
        i.neg();
        let s3 = t.to_bits() == i.to_bits();
        <Q16E1 as Quire<P16E1>>::clear(&mut t);
        i.clear();
        let s4 = t.to_bits() == i.to_bits();
        let s5 = <Q16E1 as Quire<P16E1>>::init().to_bits() == Q16E1::init().to_bits()
            && <Q16E1 as Quire<P16E1>>::from_posit(a).to_bits() == Q16E1::from_posit(a).to_bits();
        cover!(v != 0 && a.to_bits() & 1 == 1);
        Outcome::cond(pre && s1 && s1b && s2 && s3 && s4 && s5)
    }
    /// PART 0: predicates, to_posit, init, from_posit; 1: add_product (+ tuple +=); 2: sub_product; 3: neg, clear
    pub fn q32<const PART: u32, S: Src>(s: &mut S) -> Outcome {
        let v = crate::props::c04::draw512(s);
        let (a, bb) = (P32E2::from_bits(s.u32()), P32E2::from_bits(s.u32()));
        let mut t = <Q32E2 as Quire<P32E2>>::from_bits(v);
        let mut i = Q32E2::from_bits(v);
        let e = crate::refmodel::eq512;
        cover!(v[3] != 0 && a.to_bits() & 1 == 1);
        match PART {
            0 => Outcome::cond(
                e(&<Q32E2 as Quire<P32E2>>::to_bits(&t), &i.to_bits())
                    && <Q32E2 as Quire<P32E2>>::is_zero(&t) == i.is_zero()
                    && <Q32E2 as Quire<P32E2>>::is_nar(&t) == i.is_nar()
                    && <Q32E2 as Quire<P32E2>>::to_posit(&t).to_bits() == i.to_posit().to_bits()
                    && e(&<Q32E2 as Quire<P32E2>>::init().to_bits(), &Q32E2::init().to_bits())
                    && e(&<Q32E2 as Quire<P32E2>>::from_posit(a).to_bits(), &Q32E2::from_posit(a).to_bits()),
            ),
            1 => {
                <Q32E2 as Quire<P32E2>>::add_product(&mut t, a, bb);
                i.add_product(a, bb);
                let mut t2 = Q32E2::from_bits(v);
                t2 += (a, bb);
                Outcome::eq8(t.to_bits(), i.to_bits()).and(Outcome::eq8(t2.to_bits(), i.to_bits()))
            }
            2 => {
                <Q32E2 as Quire<P32E2>>::sub_product(&mut t, a, bb);
                i.sub_product(a, bb);
                let mut t2 = Q32E2::from_bits(v);
                t2 -= (a, bb);
                Outcome::eq8(t.to_bits(), i.to_bits()).and(Outcome::eq8(t2.to_bits(), i.to_bits()))
            }
            _ => {
                <Q32E2 as Quire<P32E2>>::neg(&mut t);
                i.neg();
                let s3 = e(&t.to_bits(), &i.to_bits());
                <Q32E2 as Quire<P32E2>>::clear(&mut t);
                i.clear();
                Outcome::cond(s3 && e(&t.to_bits(), &i.to_bits()))
            }
        }
    }
}
