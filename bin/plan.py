"""Harness plan: the single source of truth for which Kani harnesses exist, what they bound and which
tier runs them. /verif/bin/check generates the Kani proof wrappers and the native replay dispatcher
from this file on every run."""


class H:
    def __init__(self, name, body, *, unwind, tier="quick", timeout=120, stubs=(), gen="", funcs=(),
                 space_bits=0, bound="", covers=1, mem_gb=3, note="", slice_of=None, expect_stub=None, rot=None):
        self.name = name            # harness name (unique)
        self.body = body            # path below vh::props, e.g. "c08::p32_to_p16"
        self.gen = gen              # const generic arguments, e.g. "8" -> body::<8, S>
        self.unwind = unwind
        self.tier = tier            # "quick": both tiers; "thorough": thorough only
        self.timeout = timeout      # wall-clock cap in seconds (already ~4x the measured time)
        self.stubs = tuple(stubs)   # (original, replacement) pairs
        self.funcs = tuple(funcs)   # real functions encoded
        self.space_bits = space_bits  # log2 of the symbolic input space
        self.bound = bound          # slice predicate / bound in words
        self.covers = covers        # minimum number of cover properties that must be SATISFIED
        self.mem_gb = mem_gb
        self.note = note
        self.slice_of = slice_of    # name of the partition this harness is a slice of
        self.rot = rot              # (index, period): a thorough-tier harness that quick also runs when (index + VERIF_SEED) % period == 0


PLAN = {}


def reg(prop, *hs):
    PLAN.setdefault(prop, []).extend(hs)


LLDIV = ("softposit::lldiv", "vh::stubs::lldiv_stub")
DIV32 = ("softposit::div", "vh::stubs::div_stub")

# ------------------------------------------------------------------ C08
reg("C08",
    H("c08_p32_to_p16", "c08::p32_to_p16", unwind=33, funcs=["P16E1::from_p32e2", "From<P32E2> for P16E1", "P32E2::to_p16e1"], space_bits=32, bound="every P32E2 bit pattern"),
    H("c08_p32_to_p8", "c08::p32_to_p8", unwind=33, funcs=["P8E0::from_p32e2", "From<P32E2> for P8E0"], space_bits=32, bound="every P32E2 bit pattern"),
    H("c08_p16_to_p8", "c08::p16_to_p8", unwind=17, funcs=["P8E0::from_p16e1", "From<P16E1> for P8E0"], space_bits=16, bound="every P16E1 bit pattern"),
    H("c08_p16_to_p32", "c08::p16_to_p32", unwind=33, funcs=["P32E2::from_p16e1", "P16E1::from_p32e2"], space_bits=16, bound="every P16E1 bit pattern"),
    H("c08_p8_to_p32", "c08::p8_to_p32", unwind=33, funcs=["P32E2::from_p8e0", "P8E0::from_p32e2"], space_bits=8, bound="every P8E0 bit pattern"),
    H("c08_p8_to_p16", "c08::p8_to_p16", unwind=17, funcs=["P16E1::from_p8e0", "P8E0::from_p16e1"], space_bits=8, bound="every P8E0 bit pattern"),
    )

TYPES = [("p8", "P8E0", 8, 9), ("p16", "P16E1", 16, 17), ("p32", "P32E2", 32, 33)]
FMT_STUB = ("<f64 as core::fmt::Display>::fmt", "vh::stubs::f64_fmt_stub")
PARSE_STUB = ("<f64 as core::str::FromStr>::from_str", "vh::stubs::f64_from_str_stub")

# ------------------------------------------------------------------ C02
for t, T, n, uw in TYPES:
    reg("C02",
        H("c02_%s_from_f32" % t, "c02::%s::from_f32" % t, unwind=uw + 16, covers=2, funcs=["%s::from_f32" % T, "From<f32> for %s" % T], space_bits=32, bound="every f32 bit pattern (NaN, infinities, subnormals included)"),
        H("c02_%s_from_f64" % t, "c02::%s::from_f64" % t, unwind=uw + 16, covers=2, funcs=["%s::from_f64" % T, "From<f64> for %s" % T], space_bits=64, bound="every f64 bit pattern"),
        H("c02_%s_f32_f64_agree" % t, "c02::%s::f32_f64_agree" % t, unwind=uw + 16, funcs=["%s::from_f32" % T, "%s::from_f64" % T], space_bits=32, bound="every f32 bit pattern; widening cast by CBMC's IEEE model"),
        )

# ------------------------------------------------------------------ C03
for t, T, n, uw in TYPES:
    reg("C03",
        H("c03_%s_to_f64" % t, "c03::%s::to_f64" % t, unwind=uw, funcs=["%s::to_f64" % T, "From<%s> for f64" % T], space_bits=n, bound="every %s bit pattern" % T),
        H("c03_%s_to_f32" % t, "c03::%s::to_f32" % t, unwind=uw, funcs=["%s::to_f32" % T, "From<%s> for f32" % T], space_bits=n, bound="every %s bit pattern" % T),
        H("c03_%s_f64_roundtrip" % t, "c03::%s::f64_roundtrip" % t, unwind=uw + 16, funcs=["%s::to_f64" % T, "%s::from_f64" % T], space_bits=n, bound="every %s bit pattern" % T),
        H("c03_%s_display_wiring" % t, "c03::%s::display_wiring" % t, unwind=uw, stubs=[FMT_STUB], funcs=["Display for %s" % T], space_bits=n,
          bound="every %s bit pattern; f64 formatting replaced by a recording stub (std contract: `{}` prints a string that parses back to the same f64)" % T),
        H("c03_%s_fromstr_wiring" % t, "c03::%s::fromstr_wiring" % t, unwind=uw + 16, stubs=[PARSE_STUB], funcs=["FromStr for %s" % T], space_bits=64,
          bound="every f64 the std parser can return; f64 parsing replaced by a stub returning an arbitrary f64"),
        )

# ------------------------------------------------------------------ C07
for t, T, n, uw in TYPES:
    for f, bits in (("from_i64", 64), ("from_u64", 64), ("from_i32", 32), ("from_u32", 32)):
        reg("C07", H("c07_%s_%s" % (t, f), "c07::%s::%s" % (t, f), unwind=66, funcs=["%s::%s" % (T, f)] + (["%s::from_isize" % T] if f == "from_i64" else ["%s::from_usize" % T] if f == "from_u64" else ["%s::from_i16" % T, "%s::from_i8" % T] if f == "from_i32" else ["%s::from_u16" % T, "%s::from_u8" % T]),
                     space_bits=bits, bound="every %d-bit integer" % bits))
    for f in ("to_i32", "to_u32", "to_i64", "to_u64"):
        reg("C07", H("c07_%s_%s" % (t, f), "c07::%s::%s" % (t, f), unwind=uw, funcs=["%s::%s" % (T, f)], space_bits=n, bound="every non-NaR %s bit pattern" % T))

# ------------------------------------------------------------------ C09
for t, T, n, uw in TYPES:
    for f in ("round", "floor", "ceil", "trunc", "fract"):
        reg("C09", H("c09_%s_%s" % (t, f), "c09::%s::%s" % (t, f), unwind=uw, funcs=["%s::%s" % (T, f)], space_bits=n, bound="every %s bit pattern" % T))

# ------------------------------------------------------------------ C10
for t, T, n, uw in TYPES:
    reg("C10",
        H("c10_%s_compare" % t, "c10::%s::compare" % t, unwind=uw, funcs=["%s: ==,!=,<,<=,>,>=,eq,lt,le,gt,ge,cmp,Ord,PartialOrd,min,max" % T], space_bits=2 * n, bound="every operand pair"),
        H("c10_%s_clamp" % t, "c10::%s::clamp" % t, unwind=uw, funcs=["%s::clamp" % T], space_bits=3 * n, bound="every triple with lo <= hi"),
        H("c10_%s_unary" % t, "c10::%s::unary" % t, unwind=uw, funcs=["%s: neg, abs, signum, is_sign_positive, is_sign_negative, is_zero, is_nar, is_nan, is_finite, classify" % T], space_bits=n, bound="every bit pattern"),
        H("c10_%s_copysign" % t, "c10::%s::copysign" % t, unwind=uw, funcs=["%s::copysign" % T], space_bits=2 * n, bound="every pair with a non-NaR sign source"),
        )
C10_QUICK_N = {2, 3, 4, 5, 8, 13, 16, 24, 31, 32}
for es, P in ((1, "pxe1"), (2, "pxe2")):
    for N in range(2, 33):
        reg("C10", H("c10_%s_compare_%d" % (P, N), "c10::%s::compare" % P, gen=str(N), unwind=34, tier="quick" if N in C10_QUICK_N else "thorough",
                     funcs=["Px%s<%d>: ==,!=,<,<=,>,>=,eq,lt,le,gt,ge,cmp,Ord,PartialOrd,is_zero,is_nar" % (P[2:].upper(), N)], space_bits=2 * N, bound="every pair of %d-bit patterns (low %d bits zero)" % (N, 32 - N)))

# ------------------------------------------------------------------ C19
for t, T, n, uw in TYPES:
    reg("C19", H("c19_%s_sample" % t, "c19::%s::sample" % t, unwind=uw + 2, covers=2, funcs=["Distribution<%s> for Standard" % T, "%s::sub" % T], space_bits=96,
                 bound="every RNG stream of <= 3 arbitrary words followed by zeros"))

# ------------------------------------------------------------------ C01
for t, T, n, uw in TYPES[:2]:
    tmo = {"p8": 120, "p16": 600}[t]
    reg("C01",
        H("c01_%s_add" % t, "c01::%s::add" % t, unwind=uw, timeout=tmo, funcs=["%s::add" % T, "Add for %s" % T], space_bits=2 * n, bound="every operand pair"),
        H("c01_%s_sub" % t, "c01::%s::sub" % t, unwind=uw, timeout=tmo, funcs=["%s::sub" % T, "Sub for %s" % T], space_bits=2 * n, bound="every operand pair"),
        H("c01_%s_mul" % t, "c01::%s::mul" % t, unwind=uw, timeout=tmo, funcs=["%s::mul" % T, "Mul for %s" % T], space_bits=2 * n, bound="every operand pair"),
        H("c01_%s_div" % t, "c01::%s::div" % t, unwind=uw, timeout=tmo, stubs=[DIV32], covers=2, funcs=["%s::div" % T, "Div for %s" % T], space_bits=2 * n,
          bound="every operand pair, modulo the contract of the crate-private integer division kernel softposit::div (stubbed: q*d+r=n, 0<=r<d; quotient shared with the reference)"),
        H("c01_%s_div_bounded" % t, "c01::%s::div_bounded" % t, unwind=uw, timeout=900, tier="thorough", funcs=["%s::div" % T, "softposit::div"], space_bits=n + 7,
          bound="real kernel, no stub: every dividend, divisors with <= 6 fraction bits"),
        H("c01_%s_spell" % t, "c01::%s::spell" % t, unwind=uw, timeout=tmo * 2, tier="quick" if t == "p8" else "thorough", funcs=["%s: +,-,* operator traits, const methods, op-assign" % T], space_bits=2 * n, bound="every operand pair"),
        )
reg("C01",
    H("c01_p32_mul", "c01::p32::mul", unwind=33, timeout=1500, funcs=["P32E2::mul", "Mul for P32E2"], space_bits=64, bound="every operand pair"),
    H("c01_p32_div", "c01::p32::div", unwind=33, timeout=400, stubs=[LLDIV], covers=2, funcs=["P32E2::div", "Div for P32E2"], space_bits=64,
      bound="every operand pair, modulo the contract of softposit::lldiv (stubbed: q*d+r=n, 0<=r<d; quotient shared with the reference)"),
    H("c01_p32_div_bounded", "c01::p32::div_bounded", unwind=33, timeout=1800, tier="thorough", funcs=["P32E2::div", "softposit::lldiv"], space_bits=39,
      bound="real kernel, no stub: every dividend, divisors with <= 6 fraction bits"),
    H("c01_p32_spell_add", "c01::p32::spell_op", gen="0", unwind=33, timeout=1800, tier="thorough", funcs=["P32E2: + operator trait, const method, +="], space_bits=64, bound="every operand pair"),
    H("c01_p32_spell_sub", "c01::p32::spell_op", gen="1", unwind=33, timeout=1800, tier="thorough", funcs=["P32E2: - operator trait, const method, -="], space_bits=64, bound="every operand pair"),
    H("c01_p32_spell_mul", "c01::p32::spell_op", gen="2", unwind=33, timeout=1800, tier="thorough", funcs=["P32E2: * operator trait, const method, *="], space_bits=64, bound="every operand pair"),
    H("c01_p32_addsub_special", "c01::p32::addsub_special", unwind=33, funcs=["P32E2::add", "P32E2::sub"], space_bits=34, bound="every pair with a zero or NaR operand"),
    H("c01_p32_slices_cover", "c01::p32::slices_cover", unwind=33, funcs=[], space_bits=64, bound="the slice predicates of the add/sub partition (8 same-sign, 6 opposite-sign scale-distance classes) cover every pair of real operands"),
    )
# (same sign?, dlo, dhi, measured seconds)
P32_ADD_SLICES = [(True, 0, 0, 150), (True, 1, 1, 150), (True, 2, 3, 200), (True, 4, 7, 150), (True, 8, 15, 150), (True, 16, 25, 160), (True, 26, 40, 160), (True, 41, 1000, 50),
                  (False, 0, 0, 250), (False, 1, 1, 300), (False, 2, 3, 150), (False, 4, 7, 150), (False, 8, 40, 160), (False, 41, 1000, 80)]
_si = 0
for op in ("add", "sub"):
    for same, lo, hi, sec in P32_ADD_SLICES:
        nm = "c01_p32_%s_%s_d%d_%d" % (op, "same" if same else "diff", lo, hi)
        always = lo >= 41
        # quick runs the cheap far-apart slices always and a seed-rotated quarter of the others (every slice is
        # reached within four consecutive seeds); thorough runs the whole partition
        reg("C01", H(nm, "c01::p32::%s_slice" % op, gen="%s, %d, %d" % ("true" if same else "false", lo, hi), unwind=33, timeout=max(8 * sec, 1200),
                     tier="quick" if always else "thorough", rot=None if always else (_si, 4), funcs=["P32E2::%s" % op], space_bits=64, slice_of="P32E2 %s over all real pairs" % op,
                     bound="real operands, effective signs %s, |scale(a)-scale(b)| in [%d,%d]" % ("equal" if same else "opposite", lo, hi)))
        _si += 1

# ------------------------------------------------------------------ C04 (one inductive step from an arbitrary state)
reg("C04",
    H("c04_q8_step", "c04::q8::step", unwind=34, covers=2, funcs=["Q8E0 += (P8E0,P8E0)", "Q8E0 -= (P8E0,P8E0)", "Q8E0 += P8E0", "Q8E0 -= P8E0"], space_bits=50, bound="every 32-bit quire state (NaR state included), every operand pair, four step kinds; result pattern != NaR (the property's range precondition)"),
    H("c04_q8_predicates", "c04::q8::predicates", unwind=9, funcs=["Q8E0::is_zero", "Q8E0::is_nar"], space_bits=32, bound="every state"),
    H("c04_q8_to_posit", "c04::q8::to_posit", unwind=34, funcs=["Q8E0::to_posit"], space_bits=32, bound="every state"),
    H("c04_q8_spellings", "c04::q8::spellings", unwind=34, timeout=900, funcs=["Q8E0 +=/-= tuple, nested-tuple and array operands"], space_bits=65, bound="every state and operands"),
    H("c04_q16_step", "c04::q16::step", unwind=66, covers=2, timeout=600, funcs=["Q16E1 += (P16E1,P16E1)", "Q16E1 -= (P16E1,P16E1)", "Q16E1 += P16E1", "Q16E1 -= P16E1"], space_bits=162, bound="every 128-bit quire state, every operand pair, four step kinds; result pattern != NaR"),
    H("c04_q16_predicates", "c04::q16::predicates", unwind=9, funcs=["Q16E1::is_zero", "Q16E1::is_nar"], space_bits=128, bound="every state"),
    H("c04_q16_to_posit", "c04::q16::to_posit", unwind=130, timeout=300, funcs=["Q16E1::to_posit"], space_bits=128, bound="every state"),
    H("c04_q16_spellings", "c04::q16::spellings", unwind=66, timeout=2400, tier="thorough", funcs=["Q16E1 +=/-= tuple, nested-tuple and array operands"], space_bits=193, bound="every state and operands"),
    H("c04_q32_predicates", "c04::q32::predicates", unwind=9, covers=2, funcs=["Q32E2::is_zero", "Q32E2::is_nar"], space_bits=512, bound="every state"),
    H("c04_q32_to_posit", "c04::q32::to_posit", unwind=66, timeout=900, mem_gb=10, funcs=["Q32E2::to_posit"], space_bits=512, bound="every 512-bit state"),
    H("c04_q32_spellings", "c04::q32::spellings", unwind=34, timeout=1800, mem_gb=12, tier="thorough", funcs=["Q32E2 +=/-= tuple, nested-tuple and array operands"], space_bits=641, bound="every state and operands"),
    )
for op, nm in ((0, "add_prod"), (1, "sub_prod"), (2, "add_one"), (3, "sub_one")):
    desc = ["+= (P32E2,P32E2)", "-= (P32E2,P32E2)", "+= P32E2", "-= P32E2"][op]
    reg("C04", H("c04_q32_step_" + nm, "c04::q32::step", gen="%d, 32" % op, unwind=34, covers=2, timeout=3600, mem_gb=10, tier="quick" if op == 2 else "thorough",
                 funcs=["Q32E2 " + desc], space_bits=576, bound="every 512-bit quire state, every operand (pair); result pattern != NaR"))
    if op < 2:
        reg("C04", H("c04_q32_step_%s_f4" % nm, "c04::q32::step", gen="%d, 4" % op, unwind=34, covers=2, timeout=1800, mem_gb=10, tier="quick" if op == 0 else "thorough",
                     funcs=["Q32E2 " + desc], space_bits=548, bound="every 512-bit quire state; operands with <= 4 significant fraction bits each (every regime, exponent, sign); result pattern != NaR"))

# ------------------------------------------------------------------ C12
reg("C12",
    H("c12_q8_roundtrip", "c12::q8::roundtrip", unwind=34, funcs=["From<P8E0> for Q8E0", "Q8E0::from_posit", "Q8E0::to_posit", "From<Q8E0> for P8E0"], space_bits=8, bound="every P8E0"),
    H("c12_q8_state_ops", "c12::q8::state_ops", unwind=34, funcs=["Q8E0::neg", "Q8E0::clear", "Q8E0::from_bits", "Q8E0::to_bits"], space_bits=32, bound="every 32-bit state"),
    H("c12_q8_split", "c12::q8::split", unwind=34, timeout=300, funcs=["Q8E0::into_two_posits", "Q8E0::into_three_posits"], space_bits=32, bound="every non-NaR state whose residuals are not the NaR pattern"),
    H("c12_q16_roundtrip", "c12::q16::roundtrip", unwind=130, funcs=["From<P16E1> for Q16E1", "Q16E1::from_posit", "Q16E1::to_posit", "From<Q16E1> for P16E1"], space_bits=16, bound="every P16E1"),
    H("c12_q16_state_ops", "c12::q16::state_ops", unwind=130, funcs=["Q16E1::neg", "Q16E1::clear", "Q16E1::from_bits", "Q16E1::to_bits"], space_bits=128, bound="every 128-bit state"),
    H("c12_q16_split2", "c12::q16::split2", unwind=130, timeout=1800, funcs=["Q16E1::into_two_posits"], space_bits=128, bound="every non-NaR state whose residual is not the NaR pattern"),
    H("c12_q16_split", "c12::q16::split", unwind=130, timeout=3600, funcs=["Q16E1::into_three_posits"], space_bits=128, bound="every non-NaR state whose residuals are not the NaR pattern"),
    H("c12_q32_roundtrip", "c12::q32::roundtrip", unwind=66, timeout=3600, mem_gb=10, tier="thorough", funcs=["From<P32E2> for Q32E2", "Q32E2::from_posit", "Q32E2::to_posit", "From<Q32E2> for P32E2"], space_bits=32, bound="every P32E2"),
    H("c12_q32_state_ops", "c12::q32::state_ops", unwind=66, timeout=300, funcs=["Q32E2::neg", "Q32E2::clear", "Q32E2::from_bits", "Q32E2::to_bits"], space_bits=512, bound="every 512-bit state"),
    H("c12_q32_split2", "c12::q32::split2", unwind=66, timeout=2400, mem_gb=14, tier="thorough", funcs=["Q32E2::into_two_posits"], space_bits=512, bound="every non-NaR state whose residual is not the NaR pattern"),
    H("c12_q32_split3", "c12::q32::split3", unwind=66, timeout=3600, mem_gb=16, tier="thorough", funcs=["Q32E2::into_three_posits"], space_bits=512, bound="every non-NaR state whose residuals are not the NaR pattern"),
    )


# ------------------------------------------------------------------ C05
for t, T, n, uw in TYPES[:2]:
    tmo = {"p8": 300, "p16": 1500}[t]
    for f in ("mul_add", "mul_sub", "sub_product"):
        reg("C05", H("c05_%s_%s" % (t, f), "c05::%s::%s" % (t, f), unwind=uw + 8, timeout=tmo, funcs=["%s::%s" % (T, f)], space_bits=3 * n, bound="every operand triple"))
reg("C05",
    H("c05_p32_special", "c05::p32::special", unwind=34, timeout=3600, tier="thorough", funcs=["P32E2::mul_add", "P32E2::mul_sub", "P32E2::sub_product"], space_bits=66, bound="every triple with a zero or NaR operand"),
    H("c05_p32_op_mapping", "c05::p32::op_mapping", unwind=34, timeout=2400, tier="thorough", funcs=["P32E2::mul_sub", "P32E2::sub_product", "P32E2::mul_add"], space_bits=96,
      bound="every triple: mul_sub(a,b,c) == mul_add(a,b,-c), sub_product(c,a,b) == mul_add(-a,b,c)"),
    )
P32_FMA_D = [(-1000, -70), (-69, -40), (-39, -20), (-19, -8), (-7, -1), (0, 3), (4, 12), (13, 30), (31, 69), (70, 1000)]
P32_FMA_QUICK = {(True, -1000, -70), (False, -1000, -70), (True, -69, -40), (False, -69, -40)}
_fi = 0
for same in (True, False):
    for lo, hi in P32_FMA_D:
        nm = "c05_p32_mul_add_%s_d%s_%s" % ("same" if same else "diff", str(lo).replace("-", "m"), str(hi).replace("-", "m"))
        _always = (same, lo, hi) in P32_FMA_QUICK
        # quick: the four cheap far-addend classes always, plus two of the other 16 classes rotated by VERIF_SEED (period 8:
        # measured 340-800 s each when few run at once); thorough: the whole partition
        reg("C05", H(nm, "c05::p32::slice", gen="0, %s, %d, %d" % ("true" if same else "false", lo, hi), unwind=34, timeout=2400,
                     tier="quick" if _always else "thorough", rot=None if _always else (_fi, 8), funcs=["P32E2::mul_add"], space_bits=96, slice_of="P32E2 mul_add over all real triples",
                     bound="real operands, sign(a*b) %s sign(c), scale(a)+scale(b)-scale(c) in [%d,%d]" % ("==" if same else "!=", lo, hi)))
        if not _always:
            _fi += 1

# ------------------------------------------------------------------ C06
reg("C06",
    H("c06_p8_sqrt", "c06::p8::sqrt", unwind=10, funcs=["P8E0::sqrt"], space_bits=8, bound="every P8E0 bit pattern"),
    H("c06_p32_sqrt_special", "c06::p32::sqrt_special", unwind=34, funcs=["P32E2::sqrt"], space_bits=31, bound="every zero, NaR and negative input"),
    H("c06_p32_sqrt_f4", "c06::p32::sqrt_fbits", gen="4, 16", unwind=34, timeout=900, funcs=["P32E2::sqrt"], space_bits=11, bound="positive inputs whose fraction has <= 4 significant bits (every regime and exponent)"),
    H("c06_p32_sqrt_low_4a5a5", "c06::p32::sqrt_lowbits", gen="0x4A5A5", unwind=34, timeout=900, funcs=["P32E2::sqrt"], space_bits=12, bound="top 20 bits 0x4A5A5, low 12 bits free"),
    )
for top in range(9):
    reg("C06", H("c06_p16_sqrt_t%d" % top, "c06::p16::sqrt_top", gen=str(top), unwind=18, timeout=1200, tier="quick", funcs=["P16E1::sqrt"], space_bits=12 if top < 8 else 15, slice_of="P16E1 sqrt over all inputs",
                 bound=("every P16E1 input whose top 4 bits are %d" % top) if top < 8 else "every negative P16E1 input and NaR"))
for reg_ in range(16):
    reg("C06", H("c06_p32_sqrt_f8_r%d" % reg_, "c06::p32::sqrt_fbits", gen="8, %d" % reg_, unwind=34, timeout=1800, tier="thorough", funcs=["P32E2::sqrt"], space_bits=12,
                 slice_of="P32E2 sqrt, fraction <= 8 significant bits", bound="positive inputs with bits 30..27 == %d whose fraction has <= 8 significant bits" % reg_))
for i, top in enumerate([0x4A5A5, 0x40000, 0x41234, 0x45FFF, 0x48000, 0x4C321, 0x4FFFF, 0x50001, 0x5A5A5, 0x60000, 0x6789A, 0x70F0F, 0x3FFFF, 0x30001, 0x2ABCD, 0x10000][1:]):
    reg("C06", H("c06_p32_sqrt_low_%05x" % top, "c06::p32::sqrt_lowbits", gen="0x%X" % top, unwind=34, timeout=1200, tier="thorough", funcs=["P32E2::sqrt"], space_bits=12, bound="top 20 bits 0x%05X, low 12 bits free" % top))

# ------------------------------------------------------------------ C17
import re as _re, os as _os
_c17 = open(_os.path.join(_os.path.dirname(_os.path.abspath(__file__)), "..", "harness", "src", "props", "c17.rs")).read()
C17_LISTS = {m.group(1): m.group(2).split() for m in _re.finditer(r"// LIST (\w+): (.*)", _c17)}
for t, T, n, uw in TYPES:
    mk = "vh::stubs::m%s" % t
    for i, meth in enumerate(C17_LISTS["fwd1"]):
        reg("C17", H("c17_%s_float_%s" % (t, meth), "c17::%s::fwd1" % t, gen=str(i), unwind=4, stubs=[("softposit::%s::%s" % (T, meth), mk + "::m1")],
                     funcs=["<%s as num_traits::Float>::%s" % (T, meth)], space_bits=n, bound="every input; inherent %s::%s replaced by a call marker (called once, same argument, result returned unchanged)" % (T, meth)))
    for i, meth in enumerate(C17_LISTS["fwd2"]):
        reg("C17", H("c17_%s_float_%s" % (t, meth), "c17::%s::fwd2" % t, gen=str(i), unwind=4, stubs=[("softposit::%s::%s" % (T, meth), mk + "::m2")],
                     funcs=["<%s as num_traits::Float>::%s" % (T, meth)], space_bits=2 * n, bound="every input pair; inherent target replaced by a call marker"))
    for i, meth in enumerate(C17_LISTS["ops2"]):
        tgt = "div" if "div" in meth else "rem"
        reg("C17", H("c17_%s_op_%s" % (t, meth), "c17::%s::ops2" % t, gen=str(i), unwind=4, stubs=[("softposit::%s::%s" % (T, tgt), mk + "::m2")],
                     funcs=["%s: %s" % (T, {"div": "/", "rem": "%", "div_assign": "/=", "rem_assign": "%="}[meth])], space_bits=2 * n, bound="every input pair; inherent %s::%s replaced by a call marker" % (T, tgt)))
    reg("C17",
        H("c17_%s_float_mul_add" % t, "c17::%s::fwd_mul_add" % t, unwind=4, stubs=[("softposit::%s::mul_add" % T, mk + "::m3")], funcs=["<%s as num_traits::Float>::mul_add" % T], space_bits=3 * n, bound="every triple; call marker"),
        H("c17_%s_float_powi" % t, "c17::%s::fwd_powi" % t, unwind=4, stubs=[("softposit::%s::powi" % T, mk + "::mi")], funcs=["<%s as num_traits::Float>::powi" % T], space_bits=n + 32, bound="every input; call marker"),
        H("c17_%s_float_sin_cos" % t, "c17::%s::fwd_sin_cos" % t, unwind=4, stubs=[("softposit::%s::sin_cos" % T, mk + "::m12")], funcs=["<%s as num_traits::Float>::sin_cos" % T], space_bits=n, bound="every input; call marker"),
        H("c17_%s_direct1" % t, "c17::%s::direct1" % t, unwind=uw + 16, timeout=600, funcs=["%s: Float::{floor,ceil,round,trunc,fract,abs,signum,is_sign_*,is_nan,is_infinite,is_finite,is_normal,classify}, Signed::{abs,signum,is_positive,is_negative}, Zero::is_zero, One::is_one, Neg, ToPrimitive::{to_i64,to_u64,to_f64}, NumCast::from" % T], space_bits=n, bound="every input, forwarder vs inherent on the same input"),
        H("c17_%s_direct2" % t, "c17::%s::direct2" % t, unwind=uw, funcs=["%s: Float::max, Float::min" % T], space_bits=2 * n, bound="every pair"),
        H("c17_%s_from_primitive" % t, "c17::%s::from_primitive" % t, unwind=66, timeout=600, funcs=["%s: FromPrimitive::{from_i8..from_u64,from_f32,from_f64}, Into" % T], space_bits=64, bound="every 64-bit source word (narrower types by truncation)"),
        H("c17_%s_signed_abs_sub" % t, "c17::%s::signed_abs_sub" % t, unwind=uw, timeout=1800, tier="quick" if t != "p32" else "thorough", funcs=["<%s as num_traits::Signed>::abs_sub" % T], space_bits=2 * n, bound="every pair"),
        H("c17_%s_from_into" % t, "c17::%s::from_into" % t, unwind=66, timeout=900, funcs=["%s: From<i8|i16|i32|i64|isize|u8|u16|u32|u64|usize|f32|f64>, From<%s> for each of those, from_isize/from_usize/to_isize/to_usize" % (T, T)], space_bits=64 + n, bound="every 64-bit source word (narrower types by truncation) and every posit bit pattern"),
        H("c17_%s_constants" % t, "c17::%s::constants" % t, unwind=4, funcs=["%s: Float/Bounded/Zero/One constants, FloatConst vs MathConsts, type aliases, AssociatedQuire" % T], space_bits=0, bound="constants"),
        )
reg("C17",
    H("c17_quire_q8", "c17::quire::q8", unwind=34, timeout=300, funcs=["Quire<P8E0> for Q8E0: all trait methods vs inherent"], space_bits=48, bound="every state and operand pair"),
    H("c17_quire_q16", "c17::quire::q16", unwind=130, timeout=900, funcs=["Quire<P16E1> for Q16E1: all trait methods vs inherent"], space_bits=160, bound="every state and operand pair"),
    )
for part, nm in enumerate(["predicates", "add_product", "sub_product", "neg_clear"]):
    reg("C17", H("c17_quire_q32_" + nm, "c17::quire::q32", gen=str(part), unwind=66, timeout=1800, mem_gb=10, tier="quick" if part == 3 else "thorough",
                 funcs=["Quire<P32E2> for Q32E2: " + nm], space_bits=576, bound="every 512-bit state and operand pair"))
# the C01 op spellings are also C17 obligations
for t in ("p8", "p16"):
    reg("C17", [h for h in PLAN["C01"] if h.name == "c01_%s_spell" % t][0])
for op in ("add", "sub", "mul"):
    reg("C17", [h for h in PLAN["C01"] if h.name == "c01_p32_spell_%s" % op][0])
# so are the tuple / nested-tuple / array operand forms of quire += and -= (C04's spelling harnesses: each form against the
# sequence of single (a, b) steps, arbitrary state and operands, zero and NaR included)
for h in PLAN["C04"]:
    if h.name.endswith("_spellings"):
        reg("C17", h)

# ------------------------------------------------------------------ C18
for t, T, n, uw in TYPES[:2]:
    uwq = {"p8": 34, "p16": 130}[t]
    for d in list(range(1, 5)) + ["3a", "4a"]:
        ncoef = (int(str(d)[0]) + 1)
        reg("C18", H("c18_%s_poly%s_meaning" % (t, d), "c18::%s::poly%s_meaning" % (t, d), unwind=uwq, timeout=2400 if t == "p8" else 5400,
                     tier="quick" if t == "p8" and d in (1, 2) else "thorough", funcs=["%s::poly%s" % (T, d), "%s::mul" % T, "quire += / to_posit"], space_bits=n * (ncoef + 1),
                     bound="every x and every coefficient array; exact integer reference (sum of c[i]*pow_i in %d-fraction-bit fixed point, powers = reference-rounded products, one rounding%s)" % (12 if t == "p8" else 56, "; two stages as documented" if "a" in str(d) else "")))
    for d in list(range(1, 19)) + ["3a", "4a"]:
        deg = int(str(d)[0]) if "a" in str(d) else d
        if t == "p16" and deg > 8:
            continue
        quick = (t == "p8" and deg <= 5) or (t == "p16" and deg <= 1)
        reg("C18", H("c18_%s_poly%s_staging" % (t, d), "c18::%s::poly%s_staging" % (t, d), unwind=uwq, timeout=2400 if deg <= 8 else 5400, mem_gb=4 if deg <= 8 else 8,
                     tier="quick" if quick else "thorough", funcs=["%s::poly%s" % (T, d)], space_bits=n * (deg + 2),
                     bound="every x and every coefficient array; result == the documented multi-stage construction written with the crate's public *, quire += and to_posit"))
for d in range(7, 19):
    reg("C18", H("c18_p8_poly%d_xset" % d, "c18::p8::poly%d_xset" % d, unwind=34, timeout=1800, tier="quick", funcs=["P8E0::poly%d" % d], space_bits=8 * (d + 1) + 2,
                 bound="every coefficient array, x in {1, 2, -1.5, 0.75}; result == the documented multi-stage construction"))
reg("C18",
    H("c18_p32_poly1_staging", "c18::p32::poly1_staging", unwind=66, timeout=3600, mem_gb=12, tier="thorough", funcs=["P32E2::poly1"], space_bits=96, bound="every x and coefficient pair"),
    H("c18_p32_poly2_staging", "c18::p32::poly2_staging", unwind=66, timeout=5400, mem_gb=16, tier="thorough", funcs=["P32E2::poly2"], space_bits=128, bound="every x and coefficient triple"),
    )

# ------------------------------------------------------------------ C13
C13_QUICK_N = [2, 3, 4, 5, 8, 12, 16]
C13_WIDE_SLICED = [20, 24, 28, 31, 32]
C13_WIDE_MUL = [20, 24, 28, 31]
for es, P, PT in ((2, "pxe2", "PxE2"), (1, "pxe1", "PxE1")):
    for N in range(2, 33):
        q = "quick" if N in C13_QUICK_N else "thorough"
        cost = 600 if N <= 8 else 1200 if N <= 16 else 3600
        for op, nm in ((0, "add"), (1, "sub"), (2, "mul")):
            if N > 16 and op < 2:
                continue
            # quick also runs one wide multiplication per type, rotated over N in {20, 24, 28, 31} by VERIF_SEED
            _mrot = (C13_WIDE_MUL.index(N), len(C13_WIDE_MUL)) if op == 2 and N in C13_WIDE_MUL else None
            reg("C13", H("c13_%s_%s_%d" % (P, nm, N), "c13::%s::arith" % P, gen="%d, %d" % (N, op), unwind=34, timeout=cost, tier=q if N <= 16 else "thorough", rot=_mrot,
                         funcs=["%s<%d>: %s" % (PT, N, "+-*"[op])], space_bits=2 * N, bound="every pair of %d-bit patterns (low %d bits zero)" % (N, 32 - N)))
        q32 = "quick" if N == 32 else q   # N = 32 is where shift amounts reach the word size: its cheap harnesses are always in quick
        reg("C13", H("c13_%s_div_%d" % (P, N), "c13::%s::div" % P, gen=str(N), unwind=34, timeout=600, tier=q32, stubs=[LLDIV], funcs=["%s<%d>: /" % (PT, N)], space_bits=2 * N,
                     bound="every pair of %d-bit patterns, modulo the softposit::lldiv contract (stubbed, quotient shared)" % N))
        reg("C13", H("c13_%s_round_%d" % (P, N), "c13::%s::round" % P, gen=str(N), unwind=34, timeout=300, tier=q32, funcs=["%s<%d>::round" % (PT, N)], space_bits=N, bound="every %d-bit pattern" % N))
        if P == "pxe2" and N <= 16:
            reg("C13", H("c13_%s_sqrt_%d" % (P, N), "c13::%s::sqrt" % P, gen=str(N), unwind=34, timeout=900 if N <= 12 else 3600, tier=q if N <= 12 else "thorough", funcs=["%s<%d>::sqrt" % (PT, N)], space_bits=N,
                         bound="every %d-bit pattern (integer root as a nondeterministic witness)" % N))
        if P == "pxe2" and N > 16:
            reg("C13", H("c13_%s_sqrt_f4_%d" % (P, N), "c13::%s::sqrt_fbits" % P, gen="%d, 4" % N, unwind=34, timeout=1800, tier="thorough", funcs=["%s<%d>::sqrt" % (PT, N)], space_bits=12,
                         bound="every zero/NaR/negative %d-bit pattern and every positive one whose fraction has <= 4 significant bits; the rest of the domain is outside the claim (as for P32E2::sqrt)" % N))
        if N <= 16:
            for op, nm in ((0, "mul_add"), (1, "mul_sub"), (2, "sub_product")):
                reg("C13", H("c13_%s_%s_%d" % (P, nm, N), "c13::%s::fma" % P, gen="%d, %d" % (N, op), unwind=40, timeout=cost * 2, tier=q if (N <= 8 and op == 0) or N <= 5 else "thorough",
                             funcs=["%s<%d>::%s" % (PT, N, nm)], space_bits=3 * N, bound="every triple of %d-bit patterns" % N))
        if N in C13_WIDE_SLICED:
            reg("C13", H("c13_%s_addsub_special_%d" % (P, N), "c13::%s::addsub_special" % P, gen=str(N), unwind=34, tier="thorough", funcs=["%s<%d>: + -" % (PT, N)], space_bits=N + 2, bound="pairs with a zero or NaR operand"))
            for op, nm in ((0, "add"), (1, "sub")):
                for same, lo, hi, sec in P32_ADD_SLICES:
                    reg("C13", H("c13_%s_%s_%d_%s_d%d_%d" % (P, nm, N, "same" if same else "diff", lo, hi), "c13::%s::addsub_slice" % P,
                                 gen="%d, %d, %s, %d, %d" % (N, op, "true" if same else "false", lo, hi), unwind=34, timeout=max(8 * sec, 900),
                                 tier="quick" if N == 32 and lo >= 41 else "thorough",
                                 funcs=["%s<%d>: %s" % (PT, N, "+-"[op])], space_bits=2 * N, slice_of="%s<%d> %s over all real pairs" % (PT, N, nm),
                                 bound="real %d-bit operands, effective signs %s, scale distance in [%d,%d]" % (N, "equal" if same else "opposite", lo, hi)))
# mul_add family for wide N: the alignment partition of c05 (P32_FMA_D is defined with C05 above), thorough only
C13_WIDE_FMA = [20, 24, 28, 32]
for es, P, PT in ((2, "pxe2", "PxE2"), (1, "pxe1", "PxE1")):
    for N in C13_WIDE_FMA:
        reg("C13", H("c13_%s_fma_special_%d" % (P, N), "c13::%s::fma_special" % P, gen=str(N), unwind=40, timeout=3600, tier="thorough",
                     funcs=["%s<%d>::mul_add/mul_sub/sub_product" % (PT, N)], space_bits=2 * N + 2, bound="every triple of %d-bit patterns with a zero or NaR operand" % N))
        _wi = 0
        for same in (True, False):
            for lo, hi in P32_FMA_D:
                nm = "c13_%s_mul_add_%d_%s_d%s_%s" % (P, N, "same" if same else "diff", str(lo).replace("-", "m"), str(hi).replace("-", "m"))
                _q24 = P == "pxe2" and N == 24      # quick: PxE2<24> far-addend classes always, two of the other 16 classes per seed
                _far = hi <= -40
                reg("C13", H(nm, "c13::%s::fma_slice" % P, gen="%d, 0, %s, %d, %d" % (N, "true" if same else "false", lo, hi), unwind=40, timeout=2400,
                             tier="quick" if _q24 and _far else "thorough", rot=(_wi, 8) if _q24 and not _far else None,
                             funcs=["%s<%d>::mul_add" % (PT, N)], space_bits=3 * N, slice_of="%s<%d> mul_add over all real triples" % (PT, N),
                             bound="real %d-bit operands, sign(a*b) %s sign(c), scale(a)+scale(b)-scale(c) in [%d,%d]" % (N, "==" if same else "!=", lo, hi)))
                if not _far:
                    _wi += 1
for op, nm in ((0, "add"), (1, "sub"), (2, "mul")):
    reg("C13", H("c13_pxe1_agree16_" + nm, "c13::pxe1::agree16", gen=str(op), unwind=34, timeout=900, tier="quick", funcs=["PxE1<16> vs P16E1: " + nm], space_bits=32, bound="every pair of 16-bit patterns"))
    reg("C13", H("c13_pxe2_agree32_" + nm, "c13::pxe2::agree32", gen=str(op), unwind=34, timeout=3600, tier="thorough", funcs=["PxE2<32> vs P32E2: " + nm], space_bits=64, bound="every pair of 32-bit patterns"))

# ------------------------------------------------------------------ C14
C14_QUICK_N = [2, 3, 5, 8, 16, 32]
C14_PAIR_N = [2, 3, 4, 5, 8, 12, 16, 20, 24, 28, 31, 32]
C14_PAIR_QUICK = [3, 8, 16, 32]
for es, P, PT in ((2, "pxe2", "PxE2"), (1, "pxe1", "PxE1")):
    for N in range(2, 33):
        q = "quick" if N in C14_QUICK_N else "thorough"
        reg("C14",
            H("c14_%s_to_float_%d" % (P, N), "c14::%s::to_float" % P, gen=str(N), unwind=34, timeout=300, tier=q, funcs=["%s<%d>::to_f64/to_f32, From" % (PT, N)], space_bits=N, bound="every %d-bit pattern" % N),
            H("c14_%s_to_int_%d" % (P, N), "c14::%s::to_int" % P, gen=str(N), unwind=34, timeout=300, tier=q, funcs=["%s<%d>::to_i32/to_u32/to_i64/to_u64, From" % (PT, N)], space_bits=N, bound="every non-NaR %d-bit pattern" % N),
            H("c14_%s_to_fixed_%d" % (P, N), "c14::%s::to_fixed" % P, gen=str(N), unwind=34, timeout=300, tier=q, funcs=["%s<%d>::to_p32e2/to_p16e1/to_p8e0, From" % (PT, N)], space_bits=N, bound="every %d-bit pattern" % N),
            H("c14_%s_from_p32_%d" % (P, N), "c14::%s::from_p32" % P, gen=str(N), unwind=34, timeout=300, tier=q, funcs=["%s<%d>::from_p32e2, From<P32E2>, P32E2::to_%s" % (PT, N, P)], space_bits=32, bound="every P32E2 pattern"),
            H("c14_%s_from_p16_%d" % (P, N), "c14::%s::from_p16" % P, gen=str(N), unwind=34, timeout=300, tier=q, funcs=["%s<%d>::from_p16e1, From<P16E1>" % (PT, N)], space_bits=16, bound="every P16E1 pattern"),
            H("c14_%s_from_p8_%d" % (P, N), "c14::%s::from_p8" % P, gen=str(N), unwind=34, timeout=300, tier=q, funcs=["%s<%d>::from_p8e0, From<P8E0>" % (PT, N)], space_bits=8, bound="every P8E0 pattern"),
            H("c14_%s_from_f64_%d" % (P, N), "c14::%s::from_f64" % P, gen=str(N), unwind=48, timeout=3600, tier="thorough", funcs=["%s<%d>::from_f64, From<f64>" % (PT, N)], space_bits=62,
              bound="every f64 with binary exponent in [-%d,%d], zeros, NaN, infinities (the scaling loops run |exponent| / 2^es times; unwind 48)" % ((160, 160) if P == "pxe2" else (90, 90))),
            H("c14_%s_from_f64_m3_%d" % (P, N), "c14::%s::from_f64_short" % P, gen="%d, 3" % N, unwind=48, timeout=1200, tier="quick" if N in (5, 12, 20, 27, 32) else "thorough", funcs=["%s<%d>::from_f64" % (PT, N)], space_bits=13,
              bound="every f64 with binary exponent in [-%d,%d] whose mantissa has <= 3 significant bits (contains every power of two and the ties 1.5*2^e)" % ((160, 160) if P == "pxe2" else (90, 90))),
            H("c14_%s_from_f32_%d" % (P, N), "c14::%s::from_f32" % P, gen=str(N), unwind=48, timeout=3600, tier="thorough", funcs=["%s<%d>::from_f32, From<f32>" % (PT, N)], space_bits=32,
              bound=("every normal f32 with binary exponent in [-126,127], zeros, NaN, infinities" if P == "pxe2" else "every f32 with binary exponent in [-90,90], zeros, NaN, infinities (loop bound)")),
            )
        if P == "pxe2":
            reg("C14",
                H("c14_pxe2_from_quire_%d" % N, "c14::pxe2::from_quire", gen=str(N), unwind=66, timeout=1800, mem_gb=10, tier="quick" if N in (8,) else "thorough", funcs=["From<Q32E2> for PxE2<%d>" % N], space_bits=512, bound="every 512-bit quire state"),
                H("c14_pxe2_quire_roundtrip_%d" % N, "c14::pxe2::quire_roundtrip", gen=str(N), unwind=66, timeout=1800, mem_gb=10, tier="thorough", funcs=["From<PxE2<%d>> for Q32E2, From<Q32E2> for PxE2<%d>" % (N, N)], space_bits=N, bound="every %d-bit pattern" % N),
                )
        for K, nm in ((0, "from_u64"), (1, "from_i64"), (2, "from_u32"), (3, "from_i32")):
            if P == "pxe1" and K in (1, 2):
                continue  # todo!() stubs
            reg("C14", H("c14_%s_%s_%d" % (P, nm, N), "c14::%s::from_int" % P, gen="%d, %d" % (N, K), unwind=66, timeout=600, tier=q, funcs=["%s<%d>::%s, From" % (PT, N, nm)], space_bits=64 if "64" in nm else 32, bound="every value of the source integer type"))
    for M in C14_PAIR_N:
        for N in C14_PAIR_N:
            for K, dst in ((0, "pxe2"), (1, "pxe1")):
                if P == "pxe1" and K == 1:
                    continue
                reg("C14", H("c14_%s_to_%s_%d_%d" % (P, dst, M, N), "c14::%s::to_generic" % P, gen="%d, %d, %d" % (M, N, K), unwind=34, timeout=300,
                             tier="quick" if M in C14_PAIR_QUICK and N in C14_PAIR_QUICK else "thorough",
                             funcs=["%s<%d> -> %s<%d>" % (PT, M, dst.replace("pxe", "PxE"), N)], space_bits=M, bound="every %d-bit source pattern" % M))

# ------------------------------------------------------------------ C16
# own harnesses: functions no other property's harness calls
for t, T, n, uw in TYPES:
    stub = DIV32 if t != "p32" else LLDIV
    reg("C16",
        H("c16_%s_int_casts" % t, "c16::%s::int_casts" % t, unwind=uw, funcs=["%s::to_{i8,i16,i32,i64,isize,u8,u16,u32,u64,usize}, From<%s> for the integer types" % (T, T)], space_bits=n, bound="every bit pattern, NaR included"),
        H("c16_%s_div_family" % t, "c16::%s::div_family" % t, unwind=uw + 8, timeout=2400, tier="quick" if t != "p32" else "thorough", stubs=[stub], funcs=["%s::recip" % T, "%s::rem" % T, "%s::div_euclid" % T, "%s::rem_euclid" % T], space_bits=2 * n + 2,
          bound="every operand pair; integer division kernel replaced by its contract stub"),
        H("c16_%s_div_unstubbed" % t, "c16::%s::div_unstubbed" % t, unwind=uw, timeout=1200, tier="quick" if t != "p32" else "thorough", funcs=["%s::div" % T, "softposit::%s" % ("lldiv" if t == "p32" else "div")], space_bits=2 * n,
          bound="every operand pair, real division kernel, nothing asserted about the value"),
        H("c16_%s_debug_fmt" % t, "c16::%s::debug_fmt" % t, unwind=24, timeout=600, funcs=["Debug for %s" % T], space_bits=n, bound="every bit pattern"),
        )
    if t != "p8":
        reg("C16", H("c16_%s_scale_ops" % t, "c16::%s::scale_ops" % t, unwind=uw, timeout=900, funcs=["%s::to_degrees" % T, "%s::to_radians" % T], space_bits=n, bound="every bit pattern"))
# every other property's harness also discharges Kani's built-in checks on the functions it calls; under
# C16 they are re-run with reference mismatches IGNORED (a wrong value is not a totality question)
C16_IGNORE_MISMATCH = True
C16_BORROW_QUICK = ["C02", "C03", "C07", "C08", "C09", "C10", "C12", "C19"]
for _p in C16_BORROW_QUICK:
    for h in PLAN[_p]:
        if h.tier == "quick" and h.timeout <= 300:
            reg("C16", h)
for h in PLAN["C01"] + PLAN["C05"] + PLAN["C06"] + PLAN["C04"]:
    if h.name.startswith(("c01_p8", "c01_p16", "c05_p8", "c05_p16", "c06_p8", "c06_p16", "c04_q8", "c04_q16", "c01_p32_div", "c01_p32_mul", "c04_q32_to_posit", "c06_p32_sqrt_f4", "c05_p32_special")) and "bounded" not in h.name and "spell" not in h.name:
        reg("C16", h)
for h in PLAN["C13"] + PLAN["C14"]:
    if h.tier == "quick" and any(h.name.endswith("_%d" % k) for k in (2, 3, 5, 8, 16, 32)):
        reg("C16", h)
for h in PLAN["C11"] if "C11" in PLAN else []:
    pass


# ------------------------------------------------------------------ C11
C11_FULL_QUICK = {"exp", "ln", "sin_pi", "atan_pi"}
for fi, f in enumerate(["exp", "exp2", "ln", "log2", "sin_pi", "cos_pi", "tan_pi", "asin_pi", "acos_pi", "atan_pi"]):
    for k in range(16):
        reg("C11", H("c11_p16_%s_s%x" % (f, k), "c11::%s_s%x" % (f, k), unwind=40, timeout=900, tier="quick",
                     funcs=["P16E1::%s" % f], space_bits=12, slice_of="P16E1::%s over all 65536 inputs" % f,
                     bound="every P16E1 input whose top 4 bits are %#x, against the correctly rounded table (oracle/gen_tables.py)" % k))
    reg("C11", H("c11_p16_%s_edges" % f, "c11::%s_edges" % f, unwind=40, timeout=600, funcs=["P16E1::%s" % f], space_bits=8,
                 bound="the 256 P16E1 inputs within 32 patterns of 0, 1, NaR and -1 (minpos, maxpos, longest regimes, neighbourhood of +-1), against the correctly rounded table; a cheap early refutation of decode/saturation slips (also covered by the slices)"))
reg("C11",
    H("c11_p8_exp", "c11::exp8", unwind=40, timeout=600, funcs=["P8E0::exp"], space_bits=8, bound="every P8E0 input, against the correctly rounded table"),
    H("c11_p8_ln", "c11::ln8", unwind=40, timeout=600, funcs=["P8E0::ln"], space_bits=8, bound="every P8E0 input, against the correctly rounded table"),
    )
for h in PLAN["C11"]:
    if h.name.endswith(("_s0", "_s3", "_s8", "_sc", "_edges")) or h.name.startswith("c11_p8"):
        reg("C16", h)
