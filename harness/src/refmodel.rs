//! Independent reference model: the posit rule, stated once.
//!
//! Shares no code with softposit. Loop-free (CBMC must unroll the oracle too) except for the
//! `native_*` helpers, which are only called outside Kani. All arithmetic is wrapping/checked so
//! that none of Kani's built-in checks can fire in here.
//!
//! Conventions: an `n`-bit posit pattern is held RIGHT-aligned in a `u32` (`bits < 2^n`).
//! A decoded non-zero real is `(sign, scale, sig)` with `|value| = sig * 2^(scale-31)` and the hidden
//! bit of `sig` at bit 31.

#[inline(always)]
pub const fn mask(n: u32) -> u32 {
    if n >= 32 {
        u32::MAX
    } else {
        (1u32 << n) - 1
    }
}
#[inline(always)]
pub const fn nar(n: u32) -> u32 {
    1u32 << (n - 1)
}
#[inline(always)]
pub const fn maxpos(n: u32) -> u32 {
    nar(n) - 1
}
#[inline(always)]
pub const fn neg_n(n: u32, x: u32) -> u32 {
    x.wrapping_neg() & mask(n)
}
#[inline(always)]
pub const fn is_real(n: u32, x: u32) -> bool {
    x != 0 && x != nar(n)
}
#[inline(always)]
pub const fn sign_of(n: u32, x: u32) -> bool {
    (x >> (n - 1)) & 1 != 0
}

/// Decode a non-zero, non-NaR pattern.
pub fn dec(n: u32, es: u32, bits: u32) -> (bool, i32, u32) {
    let sign = sign_of(n, bits);
    let m = if sign { neg_n(n, bits) } else { bits };
    // regime starts at bit 31
    let body = m << (32 - n) << 1;
    let r0 = body & 0x8000_0000 != 0;
    let mut run = if r0 { (!body).leading_zeros() } else { body.leading_zeros() };
    if run > n - 1 {
        run = n - 1;
    }
    let k: i32 = if r0 { run as i32 - 1 } else { -(run as i32) };
    let used = run + 1;
    let rest: u32 = if used >= 32 { 0 } else { body << used };
    let e = if es == 0 { 0 } else { rest >> (32 - es) };
    let frac = if es == 0 { rest } else { rest << es };
    (sign, (k << es).wrapping_add(e as i32), 0x8000_0000 | (frac >> 1))
}

/// scale of a real pattern
pub fn scale_of(n: u32, es: u32, bits: u32) -> i32 {
    dec(n, es, bits).1
}

/// Posit-rule rounding of the positive real `sig * 2^(scale - p)` (+ a non-zero tail below `sig` iff
/// `sticky`), hidden bit of `sig` at bit `p` (p <= 127). Returns the n-bit pattern of the magnitude.
///
/// The real is written as the unbounded bit string regime || exponent || fraction, cut after n-1
/// bits, incremented iff the first cut bit is 1 and (a later bit is 1 or the kept string is odd),
/// then clamped to [minpos, maxpos].
pub fn enc(n: u32, es: u32, scale: i32, sig: u128, p: u32, sticky: bool) -> u32 {
    let (sig, p, sticky) = if p > 60 {
        let sh = p - 60;
        (sig >> sh, 60, sticky || (sig & ((1u128 << sh) - 1)) != 0)
    } else {
        (sig, p, sticky)
    };
    let k = scale >> es;
    let e = (scale.wrapping_sub(k << es)) as u128;
    let maxp = maxpos(n);
    if k >= n as i32 {
        return maxp;
    }
    if k < -(n as i32) {
        return 1;
    }
    let (reg_len, reg_bits): (u32, u128) = if k >= 0 {
        ((k + 2) as u32, ((1u128 << (k + 1) as u32) - 1) << 1)
    } else {
        ((1 - k) as u32, 1)
    };
    let frac = sig & ((1u128 << p) - 1);
    let total = reg_len + es + p; // <= 34 + 2 + 60
    let full: u128 = (reg_bits << (es + p)) | (e << p) | frac;
    let keep = n - 1;
    let (body, guard, rest): (u128, bool, bool) = if total <= keep {
        (full << (keep - total), false, false)
    } else {
        let sh = total - keep;
        (
            full >> sh,
            (full >> (sh - 1)) & 1 != 0,
            (full & ((1u128 << (sh - 1)) - 1)) != 0,
        )
    };
    let body = if guard && (rest || sticky || (body & 1) != 0) {
        body + 1
    } else {
        body
    };
    let mut b = body as u32;
    if body > maxp as u128 {
        b = maxp;
    }
    if b == 0 {
        b = 1;
    }
    b
}

/// Same rule for a normalised 64-bit significand (msb at bit 63) + sticky; 64-bit datapath only
/// (cheaper for the solver). `enc64(n,es,scale,sig,st) == enc(n,es,scale,sig,63,st)` is proved
/// separately.
pub fn enc64(n: u32, es: u32, scale: i32, sig: u64, sticky: bool) -> u32 {
    let k = scale >> es;
    let e = (scale.wrapping_sub(k << es)) as u64;
    let maxp = maxpos(n);
    if k >= n as i32 - 1 {
        return maxp;
    }
    if k < -(n as i32 - 1) {
        return 1;
    }
    let rl: u32 = if k >= 0 { (k + 2) as u32 } else { (1 - k) as u32 }; // 2..=n
    let reg: u64 = if k >= 0 { !0u64 << (64 - (rl - 1)) } else { 1u64 << (64 - rl) };
    let frac = sig << 1;
    let tail: u64 = if es == 0 { frac } else { (e << (64 - es)) | (frac >> es) };
    let tail_lost = if es == 0 { false } else { (frac << (64 - es)) != 0 };
    let full = reg | (tail >> rl);
    let lost = (tail << (64 - rl)) != 0 || tail_lost || sticky;
    let keep = n - 1;
    let body = full >> (64 - keep);
    let guard = (full >> (63 - keep)) & 1 != 0;
    let rest = (full << keep << 1) != 0 || lost;
    let mut b = body as u32;
    if guard && (rest || (b & 1) != 0) {
        b += 1;
    }
    if b > maxp {
        b = maxp;
    }
    if b == 0 {
        b = 1;
    }
    b
}

#[inline(always)]
pub fn with_sign(n: u32, neg: bool, r: u32) -> u32 {
    if neg {
        neg_n(n, r)
    } else {
        r
    }
}

// ---------------------------------------------------------------- arithmetic

pub fn mul(n: u32, es: u32, a: u32, b: u32) -> u32 {
    if a == nar(n) || b == nar(n) {
        return nar(n);
    }
    if a == 0 || b == 0 {
        return 0;
    }
    let (sa, ea, ma) = dec(n, es, a);
    let (sb, eb, mb) = dec(n, es, b);
    let prod = (ma as u64) * (mb as u64); // hidden at bit 62 or 63
    let (sig, sc) = if prod >> 63 != 0 { (prod, ea + eb + 1) } else { (prod << 1, ea + eb) };
    with_sign(n, sa ^ sb, enc64(n, es, sc, sig, false))
}

/// add with a 64-bit datapath
pub fn add(n: u32, es: u32, a: u32, b: u32) -> u32 {
    if a == nar(n) || b == nar(n) {
        return nar(n);
    }
    if a == 0 {
        return b;
    }
    if b == 0 {
        return a;
    }
    let (sa, ea, ma) = dec(n, es, a);
    let (sb, eb, mb) = dec(n, es, b);
    let a_big = ea > eb || (ea == eb && ma >= mb);
    let (sh, eh, mh, sl, el, ml) = if a_big { (sa, ea, ma, sb, eb, mb) } else { (sb, eb, mb, sa, ea, ma) };
    let d = (eh - el) as u32;
    let hi = (mh as u64) << 31; // msb at 62
    let lo_full = (ml as u64) << 31;
    let (lo, st) = if d >= 63 { (0u64, true) } else { (lo_full >> d, (lo_full << (63 - d) << 1) != 0) };
    if sh == sl {
        let s = hi + lo;
        let (sig, sc) = if s >> 63 != 0 { (s, eh + 1) } else { (s << 1, eh) };
        with_sign(n, sh, enc64(n, es, sc, sig, st))
    } else {
        let s = if st { hi - lo - 1 } else { hi - lo };
        if s == 0 && !st {
            return 0;
        }
        let lz = s.leading_zeros();
        with_sign(n, sh, enc64(n, es, eh + 1 - lz as i32, s << lz, st))
    }
}

pub fn sub(n: u32, es: u32, a: u32, b: u32) -> u32 {
    add(n, es, a, neg_n(n, b))
}

/// quotient given an externally supplied integer division `num = q*den + r`, where
/// `num = ma << 32`, `den = mb` are the decoded significands. Used natively (real division) and
/// under Kani with a shared nondeterministic witness.
pub fn div_from_qr(n: u32, es: u32, a: u32, b: u32, q: u64, r_nonzero: bool) -> u32 {
    let (sa, ea, _ma) = dec(n, es, a);
    let (sb, eb, _mb) = dec(n, es, b);
    // q = floor(ma*2^32/mb) in (2^31, 2^33)
    let lz = q.leading_zeros();
    let p = 63 - lz as i32;
    with_sign(n, sa ^ sb, enc64(n, es, ea - eb + p - 32, q << lz, r_nonzero))
}

pub fn native_div(n: u32, es: u32, a: u32, b: u32) -> u32 {
    if a == nar(n) || b == nar(n) || b == 0 {
        return nar(n);
    }
    if a == 0 {
        return 0;
    }
    let (_, _, ma) = dec(n, es, a);
    let (_, _, mb) = dec(n, es, b);
    let num = (ma as u64) << 32;
    div_from_qr(n, es, a, b, num / mb as u64, num % mb as u64 != 0)
}

/// sqrt given the integer root witness `r = floor(sqrt(nn))`, `nn` as computed by `sqrt_radicand`
pub fn sqrt_radicand(n: u32, es: u32, a: u32) -> (u128, i32) {
    let (_s, ea, ma) = dec(n, es, a);
    let (m, e) = if ea & 1 != 0 { ((ma as u128) << 1, ea - 1) } else { (ma as u128, ea) };
    (m << 65, e) // value = m * 2^(e-31) = nn * 2^(e-96), e-96 even
}
pub fn sqrt_from_root(n: u32, es: u32, a: u32, r: u64) -> u32 {
    let (nn, e) = sqrt_radicand(n, es, a);
    let r = r as u128; // in [2^48, 2^49)
    let exact = r * r == nn;
    let lz = (r as u64).leading_zeros();
    let p = 63 - lz as i32;
    enc64(n, es, (e - 96) / 2 + p, (r as u64) << lz, !exact)
}
pub fn native_isqrt(nn: u128) -> u64 {
    let mut r: u128 = 0;
    let mut bit: u128 = 1u128 << 49;
    while bit != 0 {
        let t = r | bit;
        if t * t <= nn {
            r = t;
        }
        bit >>= 1;
    }
    r as u64
}
pub fn native_sqrt(n: u32, es: u32, a: u32) -> u32 {
    if sign_of(n, a) {
        return nar(n);
    }
    if a == 0 {
        return 0;
    }
    let (nn, _) = sqrt_radicand(n, es, a);
    sqrt_from_root(n, es, a, native_isqrt(nn))
}

/// exact a*b + c (sign flips applied by the caller), 128-bit product and aligned addend + sticky
pub fn fma(n: u32, es: u32, a: u32, b: u32, c: u32) -> u32 {
    let nar_ = nar(n);
    if a == nar_ || b == nar_ || c == nar_ {
        return nar_;
    }
    if a == 0 || b == 0 {
        return c;
    }
    let (sa, ea, ma) = dec(n, es, a);
    let (sb, eb, mb) = dec(n, es, b);
    let prod = (ma as u128) * (mb as u128); // value = prod * 2^(ea+eb-62), msb at 62 or 63
    let sp = sa ^ sb;
    if c == 0 {
        let p = 127 - prod.leading_zeros();
        return with_sign(n, sp, enc(n, es, ea + eb + p as i32 - 62, prod, p, false));
    }
    let (sc, ec, mc) = dec(n, es, c);
    let cw = (mc as u128) << 31; // value = cw * 2^(ec-62)
    let (e_hi, hi, s_hi, e_lo, lo, s_lo) = if ea + eb >= ec {
        (ea + eb, prod, sp, ec, cw, sc)
    } else {
        (ec, cw, sc, ea + eb, prod, sp)
    };
    let d = (e_hi - e_lo) as u32;
    let hi = hi << 60;
    let lo_full = lo << 60;
    let (lo, sticky) = if d >= 127 {
        (0u128, true)
    } else {
        (lo_full >> d, (lo_full & ((1u128 << d) - 1)) != 0)
    };
    let (mag, neg, sticky) = if s_hi == s_lo {
        (hi + lo, s_hi, sticky)
    } else if hi > lo || (hi == lo && !sticky) {
        if sticky {
            (hi - lo - 1, s_hi, true)
        } else {
            (hi - lo, s_hi, false)
        }
    } else {
        (lo - hi, s_lo, sticky)
    };
    if mag == 0 && !sticky {
        return 0;
    }
    let p = 127 - mag.leading_zeros();
    with_sign(n, neg, enc(n, es, e_hi - 62 - 60 + p as i32, mag, p, sticky))
}

// ---------------------------------------------------------------- conversions

pub fn from_f64_bits(n: u32, es: u32, f: u64) -> u32 {
    let sign = f >> 63 != 0;
    let ex = ((f >> 52) & 0x7ff) as i32;
    let man = f & 0x000f_ffff_ffff_ffff;
    if ex == 0x7ff {
        return nar(n);
    }
    if ex == 0 && man == 0 {
        return 0;
    }
    let (sig, p, scale) = if ex == 0 {
        let p = 63 - man.leading_zeros();
        (man as u128, p, p as i32 - 1074)
    } else {
        ((man | (1u64 << 52)) as u128, 52, ex - 1023)
    };
    with_sign(n, sign, enc(n, es, scale, sig, p, false))
}
pub fn from_f32_bits(n: u32, es: u32, f: u32) -> u32 {
    let sign = f >> 31 != 0;
    let ex = ((f >> 23) & 0xff) as i32;
    let man = f & 0x007f_ffff;
    if ex == 0xff {
        return nar(n);
    }
    if ex == 0 && man == 0 {
        return 0;
    }
    let (sig, p, scale) = if ex == 0 {
        let p = 31 - man.leading_zeros();
        (man as u128, p, p as i32 - 149)
    } else {
        ((man | (1u32 << 23)) as u128, 23, ex - 127)
    };
    with_sign(n, sign, enc(n, es, scale, sig, p, false))
}

/// IEEE double bits of the exact value (every posit with n <= 32, es <= 2 is a normal double).
/// NaR -> None (any NaN accepted by the caller).
pub fn to_f64_bits(n: u32, es: u32, x: u32) -> Option<u64> {
    if x == nar(n) {
        return None;
    }
    if x == 0 {
        return Some(0);
    }
    let (s, e, m) = dec(n, es, x);
    Some(((s as u64) << 63) | (((e + 1023) as u64) << 52) | (((m & 0x7fff_ffff) as u64) << 21))
}
/// IEEE single bits of the value rounded to nearest even (all n<=32, es<=2 posits are f32-normal:
/// |scale| <= 120)
pub fn to_f32_bits(n: u32, es: u32, x: u32) -> Option<u32> {
    if x == nar(n) {
        return None;
    }
    if x == 0 {
        return Some(0);
    }
    let (s, e, m) = dec(n, es, x);
    // m: 1.31 -> keep 24 bits
    let keep = m >> 8;
    let guard = (m >> 7) & 1 != 0;
    let rest = m & 0x7f != 0;
    let mut mant = keep as u64; // 2^23..2^24
    let mut e = e;
    if guard && (rest || keep & 1 != 0) {
        mant += 1;
        if mant == 1 << 24 {
            mant = 1 << 23;
            e += 1;
        }
    }
    Some(((s as u32) << 31) | (((e + 127) as u32) << 23) | ((mant as u32) & 0x7f_ffff))
}

pub fn p2p(ns: u32, ess: u32, nd: u32, esd: u32, x: u32) -> u32 {
    if x == 0 {
        return 0;
    }
    if x == nar(ns) {
        return nar(nd);
    }
    let (s, e, m) = dec(ns, ess, x);
    with_sign(nd, s, enc(nd, esd, e, m as u128, 31, false))
}
/// true iff converting is exact (value representable in destination)
pub fn p2p_exact(ns: u32, ess: u32, nd: u32, esd: u32, x: u32) -> bool {
    if x == 0 || x == nar(ns) {
        return true;
    }
    let y = p2p(ns, ess, nd, esd, x);
    let (s1, e1, m1) = dec(ns, ess, x);
    let (s2, e2, m2) = dec(nd, esd, y);
    s1 == s2 && e1 == e2 && m1 == m2
}

/// posit -> integer, nearest even, clamped. `width` 32 or 64. Result as two's complement in u64
/// (low `width` bits).
pub fn to_int(n: u32, es: u32, x: u32, signed: bool, width: u32) -> u64 {
    if x == 0 {
        return 0;
    }
    let (s, e, m) = dec(n, es, x);
    let (mag, ovf): (u128, bool) = if e >= 66 {
        (0, true)
    } else if e >= 31 {
        ((m as u128) << ((e - 31) as u32), false)
    } else if e < -2 {
        (0, false)
    } else {
        let sh = (31 - e) as u32; // 1..=33
        let w = m as u128;
        let q = w >> sh;
        let g = (w >> (sh - 1)) & 1 != 0;
        let r = (w & ((1u128 << (sh - 1)) - 1)) != 0;
        (if g && (r || (q & 1) != 0) { q + 1 } else { q }, false)
    };
    let (maxp, maxn): (u128, u128) = if signed {
        ((1u128 << (width - 1)) - 1, 1u128 << (width - 1))
    } else {
        ((1u128 << width) - 1, 0)
    };
    let msk: u64 = if width == 64 { u64::MAX } else { (1u64 << width) - 1 };
    if !s {
        let v = if ovf || mag > maxp { maxp } else { mag };
        v as u64
    } else {
        let v = if ovf || mag > maxn { maxn } else { mag };
        (v as u64).wrapping_neg() & msk
    }
}

pub fn from_u64(n: u32, es: u32, v: u64) -> u32 {
    if v == 0 {
        return 0;
    }
    let p = 63 - v.leading_zeros();
    enc(n, es, p as i32, v as u128, p, false)
}
pub fn from_i64(n: u32, es: u32, v: i64) -> u32 {
    with_sign(n, v < 0, from_u64(n, es, v.unsigned_abs()))
}

/// mode 0 round-half-even, 1 floor, 2 ceil, 3 trunc
pub fn rint(n: u32, es: u32, x: u32, mode: u8) -> u32 {
    if x == 0 || x == nar(n) {
        return x;
    }
    let (s, e, m) = dec(n, es, x);
    if e >= 31 {
        return x;
    }
    let (q, g, r): (u64, bool, bool) = if e < -1 {
        (0, false, true)
    } else {
        let sh = (31 - e) as u32; // 1..=32
        let w = m as u64;
        (w >> sh, (w >> (sh - 1)) & 1 != 0, (w & ((1u64 << (sh - 1)) - 1)) != 0)
    };
    let inexact = g || r;
    let k = match mode {
        0 => {
            if g && (r || q & 1 != 0) {
                q + 1
            } else {
                q
            }
        }
        1 => {
            if s && inexact {
                q + 1
            } else {
                q
            }
        }
        2 => {
            if !s && inexact {
                q + 1
            } else {
                q
            }
        }
        _ => q,
    };
    if k == 0 {
        return 0;
    }
    let p = 63 - k.leading_zeros();
    with_sign(n, s, enc(n, es, p as i32, k as u128, p, false))
}
/// x - trunc(x), exact
pub fn fract(n: u32, es: u32, x: u32) -> u32 {
    if x == 0 || x == nar(n) {
        return x;
    }
    let (s, e, m) = dec(n, es, x);
    if e >= 31 {
        return 0;
    }
    if e < 0 {
        return x;
    }
    let f = ((m as u64) << (e as u32 + 1)) & 0xffff_ffff; // fraction bits below the binary point, 0.32
    if f == 0 {
        return 0;
    }
    let lz = (f as u32).leading_zeros();
    let sig = (f as u32) << lz; // hidden at 31
    with_sign(n, s, enc(n, es, -(lz as i32) - 1, sig as u128, 31, false))
}

/// real-number order: NaR below everything. -1, 0, 1
pub fn cmp(n: u32, es: u32, a: u32, b: u32) -> i32 {
    // rank: NaR = lowest; then negative by decreasing magnitude, zero, positive by magnitude
    fn key(n: u32, es: u32, x: u32) -> (i32, i32, i64) {
        if x == nar(n) {
            return (-2, 0, 0);
        }
        if x == 0 {
            return (0, 0, 0);
        }
        let (s, e, m) = dec(n, es, x);
        if s {
            (-1, -e, -(m as i64))
        } else {
            (1, e, m as i64)
        }
    }
    let ka = key(n, es, a);
    let kb = key(n, es, b);
    if ka.0 != kb.0 {
        return if ka.0 < kb.0 { -1 } else { 1 };
    }
    if ka.1 != kb.1 {
        return if ka.1 < kb.1 { -1 } else { 1 };
    }
    if ka.2 != kb.2 {
        return if ka.2 < kb.2 { -1 } else { 1 };
    }
    0
}

// ---------------------------------------------------------------- wide integers (quire images)
// 512-bit two's complement as [u64; 8], limb 0 MOST significant (the layout of Q32E2::to_bits()).

pub type W512 = [u64; 8];

pub fn shl512_u128(v: u128, sh: u32) -> W512 {
    let mut out = [0u64; 8];
    let mut i = 0;
    while i < 8 {
        let lo_bit = (7 - i as u32) * 64;
        let limb: u64 = if sh >= lo_bit {
            let s = sh - lo_bit;
            if s >= 64 {
                0
            } else {
                ((v << s) & 0xffff_ffff_ffff_ffff) as u64
            }
        } else {
            let s = lo_bit - sh;
            if s >= 128 {
                0
            } else {
                ((v >> s) & 0xffff_ffff_ffff_ffff) as u64
            }
        };
        out[i] = limb;
        i += 1;
    }
    out
}
pub fn add512(a: &W512, b: &W512) -> W512 {
    let mut out = [0u64; 8];
    let mut c = 0u128;
    let mut i = 8;
    while i > 0 {
        i -= 1;
        let s = a[i] as u128 + b[i] as u128 + c;
        out[i] = s as u64;
        c = s >> 64;
    }
    out
}
pub fn neg512(a: &W512) -> W512 {
    let mut nn = [0u64; 8];
    let mut i = 0;
    while i < 8 {
        nn[i] = !a[i];
        i += 1;
    }
    let mut one = [0u64; 8];
    one[7] = 1;
    add512(&nn, &one)
}
pub fn is_zero512(a: &W512) -> bool {
    (a[0] | a[1] | a[2] | a[3] | a[4] | a[5] | a[6] | a[7]) == 0
}
pub fn is_nar512(a: &W512) -> bool {
    a[0] == 1u64 << 63 && (a[1] | a[2] | a[3] | a[4] | a[5] | a[6] | a[7]) == 0
}
pub fn eq512(a: &W512, b: &W512) -> bool {
    ((a[0] ^ b[0]) | (a[1] ^ b[1]) | (a[2] ^ b[2]) | (a[3] ^ b[3]) | (a[4] ^ b[4]) | (a[5] ^ b[5]) | (a[6] ^ b[6]) | (a[7] ^ b[7])) == 0
}

/// exact product term of two real n-bit posits as a signed fixed-point integer with `fb`
/// fraction bits, 512-bit. (`fb` = 240 for Q32; for P32 products the low bits never drop:
/// minpos^2 = 2^-240.)
pub fn prod_term512(n: u32, es: u32, a: u32, b: u32, fb: i32) -> W512 {
    let (sa, ea, ma) = dec(n, es, a);
    let (sb, eb, mb) = dec(n, es, b);
    let prod = (ma as u128) * (mb as u128); // * 2^(ea+eb-62)
    let sh = ea + eb - 62 + fb;
    let t = if sh >= 0 { shl512_u128(prod, sh as u32) } else { shl512_u128(prod >> ((-sh) as u32), 0) };
    if sa ^ sb {
        neg512(&t)
    } else {
        t
    }
}
/// 128-bit version (Q16: fb = 56; Q8 uses the low 32 bits with fb = 12)
pub fn prod_term128(n: u32, es: u32, a: u32, b: u32, fb: i32) -> u128 {
    let (sa, ea, ma) = dec(n, es, a);
    let (sb, eb, mb) = dec(n, es, b);
    let prod = (ma as u128) * (mb as u128);
    let sh = ea + eb - 62 + fb;
    let t: u128 = if sh >= 0 { prod << (sh as u32) } else { prod >> ((-sh) as u32) };
    if sa ^ sb {
        t.wrapping_neg()
    } else {
        t
    }
}

/// round a W-bit two's complement fixed-point value (given as magnitude window) to a posit.
/// 128-bit image with `fb` fraction bits (Q8: sign-extend the i32 to i128 first).
pub fn quire128_to_posit(n: u32, es: u32, v: u128, fb: i32, nar_pat: u128) -> u32 {
    if v == 0 {
        return 0;
    }
    if v == nar_pat {
        return nar(n);
    }
    let neg = (v >> 127) != 0;
    let m = if neg { v.wrapping_neg() } else { v };
    let p = 127 - m.leading_zeros();
    with_sign(n, neg, enc(n, es, p as i32 - fb, m, p, false))
}
pub fn quire512_to_posit(n: u32, es: u32, bits: &W512) -> u32 {
    if is_zero512(bits) {
        return 0;
    }
    if is_nar512(bits) {
        return nar(n);
    }
    let neg = bits[0] >> 63 != 0;
    let m = if neg { neg512(bits) } else { *bits };
    let mut top = 0usize;
    let mut found = false;
    let mut i = 0;
    while i < 8 {
        if !found && m[i] != 0 {
            top = i;
            found = true;
        }
        i += 1;
    }
    let hi = m[top];
    let nx = if top < 7 { m[top + 1] } else { 0 };
    let mut rest = false;
    let mut j = 0;
    while j < 8 {
        if j > top + 1 && m[j] != 0 {
            rest = true;
        }
        j += 1;
    }
    let w = ((hi as u128) << 64) | nx as u128;
    let p = 127 - w.leading_zeros();
    let idx = (7 - top as i32) * 64 + (p as i32 - 64);
    with_sign(n, neg, enc(n, es, idx - 240, w, p, rest))
}
