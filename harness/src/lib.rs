//! vh — harness bodies, reference model and stubs for solver-based checking of softposit-rs.
//! Kani proof wrappers and the native replay dispatcher are GENERATED per check by /verif/bin/check
//! from /verif/bin/plan.py into /verif/.build/<ID>/gen.
#![allow(dead_code)]
#![allow(clippy::all)]

pub mod refmodel;
pub mod tables;
pub mod src;
pub mod known;
pub mod stubs;
pub mod props;

pub use src::{Outcome, ReplaySrc, Src};
#[cfg(kani)]
pub use src::{run_kani, KaniSrc};
