#!/usr/bin/env python3-vt
"""Correctly rounded reference tables for the P16E1 / P8E0 elementary functions (C11).

For every input bit pattern x the exact mathematical result f(x) is located against the posit
rounding boundaries (exact dyadic rationals: the (n+1)-bit posits) with mpmath at increasing
precision (Ziv's strategy): the value is computed at p bits, widened by a relative error bound of
2^-(p-10), and accepted only when both ends of that interval round to the same posit; otherwise p is
doubled. Inputs where f(x) is rational (hence possibly a representable value or an exact tie) are
decided symbolically from the function's known exact points — by Lindemann-Weierstrass (exp, ln),
Niven's theorem (trigonometric functions of rational multiples of pi) and unique factorisation
(exp2, log2) there are no others for dyadic-rational inputs, so the loop terminates everywhere else.

usage: gen_tables.py [--out FILE] [--check FILE] [--sample K] [fn ...]
"""
import sys, os, hashlib
from fractions import Fraction
from multiprocessing import Pool
import mpmath as mp


def dec(nbits, es, bits):
    sign = bits >> (nbits - 1)
    m = (-bits) & ((1 << nbits) - 1) if sign else bits
    body = [(m >> i) & 1 for i in range(nbits - 2, -1, -1)]
    r0 = body[0]
    run = 0
    for b in body:
        if b == r0:
            run += 1
        else:
            break
    k = run - 1 if r0 else -run
    rest = body[run + 1:]
    e = 0
    for i in range(es):
        e = e * 2 + (rest[i] if i < len(rest) else 0)
    fr = rest[es:]
    f = Fraction(0)
    for i, b in enumerate(fr):
        f += Fraction(b, 2 ** (i + 1))
    v = (1 + f) * Fraction(2) ** (k * (2 ** es) + e)
    return -v if sign else v


class Rounder:
    """posit-rule rounding of positive reals by the relational definition: z is the rounding of y
    iff y lies between the (n+1)-bit posits 2z-1 and 2z+1 (boundary included only when z is even);
    below minpos -> minpos, above maxpos -> maxpos."""

    def __init__(self, n, es):
        self.n, self.es = n, es
        self.mids = [dec(n + 1, es, b) for b in range(1, 1 << n)]  # index i -> (n+1)-bit pattern i+1
        self.maxz = (1 << (n - 1)) - 1

    def mid(self, z):  # boundary between z and z+1 = (n+1)-bit pattern 2z+1
        return self.mids[2 * z]

    def round_fraction(self, y):
        assert y > 0
        lo, hi = 1, self.maxz
        while lo < hi:
            z = (lo + hi) // 2
            m = self.mid(z)
            if y > m:
                lo = z + 1
            elif y < m:
                hi = z
            else:
                return z if z % 2 == 0 else z + 1
        return lo

    def round_interval(self, ylo, yhi):
        """both mpf > 0; returns z if the whole interval rounds to z and touches no boundary, else None"""
        lo, hi = 1, self.maxz
        while lo < hi:
            z = (lo + hi) // 2
            m = self.mid(z)
            mm = mp.mpf(m.numerator) / mp.mpf(m.denominator)  # exact: dyadic, precision >= 200
            if ylo > mm:
                lo = z + 1
            elif yhi < mm:
                hi = z
            else:
                return None
        return lo


def F(fr):
    return mp.mpf(fr.numerator) / mp.mpf(fr.denominator)


def is_pow2(fr):
    n, d = fr.numerator, fr.denominator
    return n > 0 and n & (n - 1) == 0 and d & (d - 1) == 0


# each: special(x: Fraction) -> None | "NAR" | Fraction (exact result); f(x: mpf) -> mpf
def sp_exp(x):
    return Fraction(1) if x == 0 else None


def sp_exp2(x):
    if x.denominator == 1:
        k = int(x)
        if k > 400:
            return "MAX"
        if k < -400:
            return "MIN"
        return Fraction(2) ** k
    return None


def sp_ln(x):
    if x <= 0:
        return "NAR"
    return Fraction(0) if x == 1 else None


def sp_log2(x):
    if x <= 0:
        return "NAR"
    if is_pow2(x):
        return Fraction(x.numerator.bit_length() - x.denominator.bit_length())
    return None


def sp_sinpi(x):
    t = x % 2
    if (2 * t).denominator == 1:
        return [Fraction(0), Fraction(1), Fraction(0), Fraction(-1)][int(2 * t)]
    return None


def sp_cospi(x):
    t = x % 2
    if (2 * t).denominator == 1:
        return [Fraction(1), Fraction(0), Fraction(-1), Fraction(0)][int(2 * t)]
    return None


def sp_tanpi(x):
    t = x % 1
    if (4 * t).denominator == 1:
        return [Fraction(0), Fraction(1), "NAR", Fraction(-1)][int(4 * t)]
    return None


def sgn(x):
    return 1 if x > 0 else -1


def sp_asinpi(x):
    if abs(x) > 1:
        return "NAR"
    if x == 0:
        return Fraction(0)
    if abs(x) == 1:
        return Fraction(1, 2) * sgn(x)
    if abs(x) == Fraction(1, 2):
        return Fraction(1, 6) * sgn(x)
    return None


def sp_acospi(x):
    if abs(x) > 1:
        return "NAR"
    return {Fraction(1): Fraction(0), Fraction(0): Fraction(1, 2), Fraction(-1): Fraction(1), Fraction(1, 2): Fraction(1, 3), Fraction(-1, 2): Fraction(2, 3)}.get(x)


def sp_atanpi(x):
    if x == 0:
        return Fraction(0)
    if abs(x) == 1:
        return Fraction(1, 4) * sgn(x)
    return None


def red2(v):  # v mod 2 exactly for dyadic mpf at sufficient precision
    return v - 2 * mp.floor(v / 2)


FUNCS = {
    "exp": (16, 1, mp.exp, sp_exp, "EXP16"),
    "exp2": (16, 1, lambda v: mp.power(2, v), sp_exp2, "EXP2_16"),
    "ln": (16, 1, mp.log, sp_ln, "LN16"),
    "log2": (16, 1, lambda v: mp.log(v) / mp.log(2), sp_log2, "LOG2_16"),
    "sin_pi": (16, 1, lambda v: mp.sin(mp.pi * red2(v)), sp_sinpi, "SINPI16"),
    "cos_pi": (16, 1, lambda v: mp.cos(mp.pi * red2(v)), sp_cospi, "COSPI16"),
    "tan_pi": (16, 1, lambda v: mp.tan(mp.pi * red2(v)), sp_tanpi, "TANPI16"),
    "asin_pi": (16, 1, lambda v: mp.asin(v) / mp.pi, sp_asinpi, "ASINPI16"),
    "acos_pi": (16, 1, lambda v: mp.acos(v) / mp.pi, sp_acospi, "ACOSPI16"),
    "atan_pi": (16, 1, lambda v: mp.atan(v) / mp.pi, sp_atanpi, "ATANPI16"),
    "exp8": (8, 0, mp.exp, sp_exp, "EXP8"),
    "ln8": (8, 0, mp.log, sp_ln, "LN8"),
}
ORDER = ["exp", "exp2", "ln", "log2", "sin_pi", "cos_pi", "tan_pi", "asin_pi", "acos_pi", "atan_pi", "exp8", "ln8"]

_R = {}


def rounder(n, es):
    if (n, es) not in _R:
        _R[(n, es)] = Rounder(n, es)
    return _R[(n, es)]


def one(args):
    name, x = args
    n, es, f, sp, _ = FUNCS[name]
    R = rounder(n, es)
    nar = 1 << (n - 1)
    msk = (1 << n) - 1
    if x == nar:
        return nar
    xv = Fraction(0) if x == 0 else dec(n, es, x)
    s = sp(xv)
    if s is not None:
        if s == "NAR":
            return nar
        if s == "MAX":
            return R.maxz
        if s == "MIN":
            return 1
        if s == 0:
            return 0
        z = R.round_fraction(abs(s))
        return z if s > 0 else (-z) & msk
    p = 200
    while True:
        mp.mp.prec = p
        y = f(F(xv))
        if y == 0:
            raise RuntimeError("zero result at non-special input %s %#x" % (name, x))
        a = abs(y)
        eps = mp.ldexp(mp.mpf(1), -(p - 10))
        z = R.round_interval(a * (1 - eps), a * (1 + eps))
        if z is not None:
            return z if y > 0 else (-z) & msk
        p *= 2
        if p > 20000:
            raise RuntimeError("no decision for %s %#x" % (name, x))


def table(name, pool, step=1):
    n = FUNCS[name][0]
    xs = list(range(0, 1 << n, step))
    return xs, pool.map(one, [(name, x) for x in xs], chunksize=256)


def render(tabs):
    out = ["// GENERATED by /verif/oracle/gen_tables.py — correctly rounded results, one entry per input bit pattern", ""]
    for name in ORDER:
        if name not in tabs:
            continue
        n, _, _, _, ident = FUNCS[name]
        ty = "u16" if n == 16 else "u8"
        t = tabs[name]
        out.append("pub static %s: [%s; %d] = [" % (ident, ty, len(t)))
        for i in range(0, len(t), 16):
            out.append("    " + ", ".join("%d" % v for v in t[i:i + 16]) + ",")
        out.append("];")
        out.append("")
    return "\n".join(out)


def parse(path):
    import re
    txt = open(path).read()
    tabs = {}
    for name in ORDER:
        ident = FUNCS[name][4]
        m = re.search(r"pub static %s: \[u\d+; \d+\] = \[(.*?)\];" % ident, txt, re.S)
        if m:
            tabs[name] = [int(v) for v in re.findall(r"\d+", m.group(1))]
    return tabs


def main():
    a = sys.argv[1:]
    out = check = None
    step = 1
    names = []
    i = 0
    while i < len(a):
        if a[i] == "--out":
            out = a[i + 1]; i += 2
        elif a[i] == "--check":
            check = a[i + 1]; i += 2
        elif a[i] == "--sample":
            step = int(a[i + 1]); i += 2
        else:
            names.append(a[i]); i += 1
    names = names or ORDER
    with Pool(int(os.environ.get("ORACLE_JOBS", "16"))) as pool:
        if check:
            ref = parse(check)
            bad = 0
            for nm in names:
                xs, t = table(nm, pool, step)
                for x, v in zip(xs, t):
                    if ref[nm][x] != v:
                        bad += 1
                        if bad < 10:
                            print("MISMATCH %s x=%#x committed=%#x regenerated=%#x" % (nm, x, ref[nm][x], v))
                print("%s: %d entries re-derived, %d mismatches so far" % (nm, len(xs), bad), flush=True)
            sys.exit(1 if bad else 0)
        tabs = {}
        for nm in names:
            _, tabs[nm] = table(nm, pool)
            print("%s done" % nm, file=sys.stderr, flush=True)
        txt = render(tabs)
        if out:
            open(out, "w").write(txt)
            print("sha256", hashlib.sha256(txt.encode()).hexdigest())
        else:
            sys.stdout.write(txt)


if __name__ == "__main__":
    main()
