//! C05 fused multiply-add family
use crate::refmodel as r;
use crate::{cover, Outcome, Src};

macro_rules! bodies {
    ($P:ty, $draw:ident, $n:expr, $es:expr) => {
        use super::*;
        pub fn mul_add<S: Src>(s: &mut S) -> Outcome {
            let (x, y, z) = (s.$draw(), s.$draw(), s.$draw());
            let got = <$P>::from_bits(x).mul_add(<$P>::from_bits(y), <$P>::from_bits(z)).to_bits() as u64;
            cover!(got & 1 == 1 && got != 1 && (x ^ y ^ z) >> ($n - 1) == 1 && z != 0);
            Outcome::eq(got, r::fma($n, $es, x as u32, y as u32, z as u32) as u64)
        }
        /// a*b - c
        pub fn mul_sub<S: Src>(s: &mut S) -> Outcome {
            let (x, y, z) = (s.$draw(), s.$draw(), s.$draw());
            let got = <$P>::from_bits(x).mul_sub(<$P>::from_bits(y), <$P>::from_bits(z)).to_bits() as u64;
            cover!(got & 1 == 1 && got != 1 && z != 0 && x != 0);
            Outcome::eq(got, r::fma($n, $es, x as u32, y as u32, r::neg_n($n, z as u32)) as u64)
        }
        /// c - a*b   (receiver is c)
        pub fn sub_product<S: Src>(s: &mut S) -> Outcome {
            let (x, y, z) = (s.$draw(), s.$draw(), s.$draw());
            let got = <$P>::from_bits(z).sub_product(<$P>::from_bits(x), <$P>::from_bits(y)).to_bits() as u64;
            cover!(got & 1 == 1 && got != 1 && z != 0 && x != 0);
            Outcome::eq(got, r::fma($n, $es, r::neg_n($n, x as u32), y as u32, z as u32) as u64)
        }
    };
}
pub mod p8 {
    bodies!(softposit::P8E0, u8, 8, 0);
}
pub mod p16 {
    bodies!(softposit::P16E1, u16, 16, 1);
}
pub mod p32 {
    bodies!(softposit::P32E2, u32, 32, 2);
    use softposit::P32E2;
    /// one slice of the partition of real triples: sign relation of product and addend x alignment
    /// distance scale(a)+scale(b)-scale(c). OP: 0 mul_add, 1 mul_sub, 2 sub_product
    pub fn slice<const OP: u8, const SAME: bool, const DLO: i32, const DHI: i32, S: Src>(s: &mut S) -> Outcome {
        let (x, y, z) = (s.u32(), s.u32(), s.u32());
        crate::assume!(s, r::is_real(32, x) && r::is_real(32, y) && r::is_real(32, z));
        // effective operands of the exact a*b + c form
        let (xe, ze) = match OP {
            0 => (x, z),
            1 => (x, z.wrapping_neg()),
            _ => (x.wrapping_neg(), z),
        };
        let sp = (xe ^ y) >> 31 != 0;
        let sc = ze >> 31 != 0;
        let d = r::scale_of(32, 2, x) + r::scale_of(32, 2, y) - r::scale_of(32, 2, z);
        crate::assume!(s, (sp == sc) == SAME && d >= DLO && d <= DHI);
        let (a, b, c) = (P32E2::from_bits(x), P32E2::from_bits(y), P32E2::from_bits(z));
        let got = match OP {
            0 => a.mul_add(b, c),
            1 => a.mul_sub(b, c),
            _ => c.sub_product(a, b),
        }
        .to_bits() as u64;
        cover!(got & 1 == 1 && got != 1);
        Outcome::eq(got, r::fma(32, 2, xe, y, ze) as u64)
    }
    /// zero / NaR operands, all three operations
    pub fn special<S: Src>(s: &mut S) -> Outcome {
        let (x, y, z) = (s.u32(), s.u32(), s.u32());
        crate::assume!(s, !(r::is_real(32, x) && r::is_real(32, y) && r::is_real(32, z)));
        let (a, b, c) = (P32E2::from_bits(x), P32E2::from_bits(y), P32E2::from_bits(z));
        cover!(z == 0 && x & 1 == 1 && y & 1 == 1 && x >> 31 == 1);
        Outcome::eq(a.mul_add(b, c).to_bits() as u64, r::fma(32, 2, x, y, z) as u64)
            .and(Outcome::eq(a.mul_sub(b, c).to_bits() as u64, r::fma(32, 2, x, y, z.wrapping_neg()) as u64))
            .and(Outcome::eq(c.sub_product(a, b).to_bits() as u64, r::fma(32, 2, x.wrapping_neg(), y, z) as u64))
    }
    /// mul_sub and sub_product are mul_add with one operand negated (two copies of the same kernel)
    pub fn op_mapping<S: Src>(s: &mut S) -> Outcome {
        let (x, y, z) = (s.u32(), s.u32(), s.u32());
        let (a, b, c) = (P32E2::from_bits(x), P32E2::from_bits(y), P32E2::from_bits(z));
        cover!(r::is_real(32, x) && r::is_real(32, y) && r::is_real(32, z));
        Outcome::eq(a.mul_sub(b, c).to_bits() as u64, a.mul_add(b, -c).to_bits() as u64)
            .and(Outcome::eq(c.sub_product(a, b).to_bits() as u64, (-a).mul_add(b, c).to_bits() as u64))
    }
}
