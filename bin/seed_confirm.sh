#!/bin/bash
# usage: seed_confirm.sh <seed-dir containing patch.diff demo.rs>  — confirms in a scratch worktree that the
# seeded change compiles, passes the existing suite, fails its demo, and that the demo passes without it.
set -u
S=$(realpath "$1"); W=/tmp/sw_$$
export CARGO_NET_OFFLINE=true CARGO_TARGET_DIR=$W/target
git -C /repo worktree add -q --detach $W HEAD || exit 2
trap 'git -C /repo worktree remove --force $W >/dev/null 2>&1' EXIT
cd $W && mkdir -p examples && cp $S/demo.rs examples/seed_demo.rs
cargo run --offline -q --features rand --example seed_demo >/dev/null 2>&1; base=$?
git apply $S/patch.diff || { echo "PATCH DOES NOT APPLY"; exit 2; }
cargo build --offline -q 2>/dev/null || { echo "DOES NOT COMPILE"; exit 2; }
cargo run --offline -q --features rand --example seed_demo >/dev/null 2>&1; mut=$?
t1=$(cargo test --offline 2>&1 | grep -E "^test result" | head -1)
fails=$(cargo test --offline 2>&1 | grep -E "^test .* FAILED" | grep -v "mul_add::test_mul_add" | wc -l)
echo "demo on base: exit $base (want 0); demo with patch: exit $mut (want != 0); suite: $t1; non-flaky failures on 2nd run: $fails"
[ $base -eq 0 ] && [ $mut -ne 0 ] && [ $fails -eq 0 ] && echo CONFIRMED || echo NOT-CONFIRMED
