//! C18 polynomial evaluation
use crate::refmodel as r;
use crate::{cover, Outcome, Src};
use softposit::Polynom;

macro_rules! bodies {
    ($P:ty, $Q:ty, $draw:ident, $n:expr, $es:expr, $fb:expr, $qnar:expr, $sext:expr) => {
        use super::*;
        type P = $P;
        type Q = $Q;
        /// lead*x^k + rest[0]*x^(k-1) + ... + rest[k-1] in ONE quire, accumulated in the order of the source
        fn stage(x: P, x2: P, x3: P, x4: P, lead: P, rest: &[P]) -> P {
            let k = rest.len();
            let pw = [P::ONE, x, x2, x3, x4];
            let mut q = Q::init();
            let mut i = 0;
            while i < k {
                q += (pw[i], rest[k - 1 - i]);
                i += 1;
            }
            q += (pw[k], lead);
            q.to_posit()
        }
        /// the documented construction: degree <= 4 in one quire; 5..8 as an inner 2/3/3/4 stage whose
        /// rounded value becomes the leading coefficient of an outer 3/3/4/4 stage; >= 9 recursively
        /// with an outer stage of 4
        fn documented(x: P, c: &[P]) -> P {
            let x2 = x * x;
            let x3 = x2 * x;
            let x4 = x2 * x2;
            let deg = c.len() - 1;
            // stage sizes from the innermost stage outwards
            let mut sizes = [0usize; 6];
            let mut ns = 0;
            let mut d = deg;
            while d > 4 {
                let outer = match d {
                    5 | 6 => 3,
                    _ => 4,
                };
                sizes[ns] = outer;
                ns += 1;
                d -= outer;
            }
            // innermost stage: degree d (1..=4)
            let mut p = stage(x, x2, x3, x4, c[0], &c[1..d + 1]);
            let mut pos = d + 1;
            while ns > 0 {
                ns -= 1;
                let k = sizes[ns];
                p = stage(x, x2, x3, x4, p, &c[pos..pos + k]);
                pos += k;
            }
            p
        }
        macro_rules! staging {
            ($name:ident, $meth:ident, $len:expr) => {
                pub fn $name<S: Src>(s: &mut S) -> Outcome {
                    let x = P::from_bits(s.$draw());
                    let mut c = [P::ZERO; $len];
                    let mut i = 0;
                    while i < $len {
                        c[i] = P::from_bits(s.$draw());
                        i += 1;
                    }
                    let got = x.$meth(&c).to_bits();
                    let want = documented(x, &c).to_bits();
                    cover!(got & 1 == 1 && got != 1 && c[0].to_bits() & 1 == 1);
                    Outcome::eq(got as u64, want as u64)
                }
            };
        }
        /// every coefficient array, x restricted to four values (1, 2, -1.5, 0.75): cheap enough for the quick
        /// tier at every degree; catches dropped / duplicated / shifted coefficients and mixed-up powers
        macro_rules! staging_xset {
            ($name:ident, $meth:ident, $len:expr) => {
                pub fn $name<S: Src>(s: &mut S) -> Outcome {
                    let sel = s.u8();
                    crate::assume!(s, sel < 4);
                    let x = match sel {
                        0 => P::ONE,
                        1 => P::from_f64(2.0),
                        2 => P::from_f64(-1.5),
                        _ => P::from_f64(0.75),
                    };
                    let mut c = [P::ZERO; $len];
                    let mut i = 0;
                    while i < $len {
                        c[i] = P::from_bits(s.$draw());
                        i += 1;
                    }
                    let got = x.$meth(&c).to_bits();
                    let want = documented(x, &c).to_bits();
                    cover!(got & 1 == 1 && got != 1 && c[0].to_bits() & 1 == 1 && sel == 2);
                    Outcome::eq(got as u64, want as u64)
                }
            };
        }
        staging_xset!(poly7_xset, poly7, 8);
        staging_xset!(poly8_xset, poly8, 9);
        staging_xset!(poly9_xset, poly9, 10);
        staging_xset!(poly10_xset, poly10, 11);
        staging_xset!(poly11_xset, poly11, 12);
        staging_xset!(poly12_xset, poly12, 13);
        staging_xset!(poly13_xset, poly13, 14);
        staging_xset!(poly14_xset, poly14, 15);
        staging_xset!(poly15_xset, poly15, 16);
        staging_xset!(poly16_xset, poly16, 17);
        staging_xset!(poly17_xset, poly17, 18);
        staging_xset!(poly18_xset, poly18, 19);
        staging!(poly1_staging, poly1, 2);
        staging!(poly2_staging, poly2, 3);
        staging!(poly3_staging, poly3, 4);
        staging!(poly4_staging, poly4, 5);
        staging!(poly5_staging, poly5, 6);
        staging!(poly6_staging, poly6, 7);
        staging!(poly7_staging, poly7, 8);
        staging!(poly8_staging, poly8, 9);
        staging!(poly9_staging, poly9, 10);
        staging!(poly10_staging, poly10, 11);
        staging!(poly11_staging, poly11, 12);
        staging!(poly12_staging, poly12, 13);
        staging!(poly13_staging, poly13, 14);
        staging!(poly14_staging, poly14, 15);
        staging!(poly15_staging, poly15, 16);
        staging!(poly16_staging, poly16, 17);
        staging!(poly17_staging, poly17, 18);
        staging!(poly18_staging, poly18, 19);

        /// poly3a / poly4a: the two-stage construction written in the source comment
        pub fn poly3a_staging<S: Src>(s: &mut S) -> Outcome {
            let x = P::from_bits(s.$draw());
            let c = [P::from_bits(s.$draw()), P::from_bits(s.$draw()), P::from_bits(s.$draw()), P::from_bits(s.$draw())];
            let x2 = x * x;
            let p = stage(x, x2, x2, x2, c[0], &c[1..2]); // c0*x + c1
            let want = stage(x, x2, x2, x2, p, &c[2..4]); // p*x^2 + c2*x + c3
            let got = x.poly3a(&c).to_bits();
            cover!(got & 1 == 1 && got != 1);
            Outcome::eq(got as u64, want.to_bits() as u64)
        }
        pub fn poly4a_staging<S: Src>(s: &mut S) -> Outcome {
            let x = P::from_bits(s.$draw());
            let c = [P::from_bits(s.$draw()), P::from_bits(s.$draw()), P::from_bits(s.$draw()), P::from_bits(s.$draw()), P::from_bits(s.$draw())];
            let x2 = x * x;
            let p = stage(x, x2, x2, x2, c[0], &c[1..3]); // c0*x^2 + c1*x + c2
            let want = stage(x, x2, x2, x2, p, &c[3..5]); // p*x^2 + c3*x + c4
            let got = x.poly4a(&c).to_bits();
            cover!(got & 1 == 1 && got != 1);
            Outcome::eq(got as u64, want.to_bits() as u64)
        }

        // ---- (A) meaning: exact integer reference, independent of the crate's quire
        fn exact_stage(pw: &[u32; 5], lead: u32, rest: &[u32]) -> u32 {
            let k = rest.len();
            let nar = r::nar($n);
            let mut any_nar = lead == nar || pw[1] == nar;
            let mut acc: u128 = 0;
            let mut i = 0;
            while i <= k {
                let coef = if i == k { lead } else { rest[k - 1 - i] };
                if coef == nar {
                    any_nar = true;
                }
                if coef != 0 && coef != nar && pw[i] != 0 && pw[i] != nar {
                    acc = acc.wrapping_add(r::prod_term128($n, $es, pw[i], coef, $fb));
                }
                i += 1;
            }
            if any_nar {
                return nar;
            }
            let acc = $sext(acc);
            r::quire128_to_posit($n, $es, acc, $fb, $qnar)
        }
        fn powers(x: u32) -> [u32; 5] {
            let x2 = r::mul($n, $es, x, x);
            [P::ONE.to_bits() as u32, x, x2, r::mul($n, $es, x2, x), r::mul($n, $es, x2, x2)]
        }
        macro_rules! meaning {
            ($name:ident, $meth:ident, $len:expr) => {
                pub fn $name<S: Src>(s: &mut S) -> Outcome {
                    let xb = s.$draw();
                    let mut cb = [0u32; $len];
                    let mut c = [P::ZERO; $len];
                    let mut i = 0;
                    while i < $len {
                        let v = s.$draw();
                        cb[i] = v as u32;
                        c[i] = P::from_bits(v);
                        i += 1;
                    }
                    let got = P::from_bits(xb).$meth(&c).to_bits();
                    let want = exact_stage(&powers(xb as u32), cb[0], &cb[1..]);
                    cover!(got & 1 == 1 && got != 1 && cb[0] & 1 == 1);
                    Outcome::eq(got as u64, want as u64)
                }
            };
        }
        meaning!(poly1_meaning, poly1, 2);
        meaning!(poly2_meaning, poly2, 3);
        meaning!(poly3_meaning, poly3, 4);
        meaning!(poly4_meaning, poly4, 5);
        pub fn poly3a_meaning<S: Src>(s: &mut S) -> Outcome {
            let xb = s.$draw();
            let cb = [s.$draw() as u32, s.$draw() as u32, s.$draw() as u32, s.$draw() as u32];
            let c = [P::from_bits(cb[0] as _), P::from_bits(cb[1] as _), P::from_bits(cb[2] as _), P::from_bits(cb[3] as _)];
            let pw = powers(xb as u32);
            let p = exact_stage(&pw, cb[0], &cb[1..2]);
            let want = exact_stage(&pw, p, &cb[2..4]);
            let got = P::from_bits(xb).poly3a(&c).to_bits();
            cover!(got & 1 == 1 && got != 1);
            Outcome::eq(got as u64, want as u64)
        }
        pub fn poly4a_meaning<S: Src>(s: &mut S) -> Outcome {
            let xb = s.$draw();
            let cb = [s.$draw() as u32, s.$draw() as u32, s.$draw() as u32, s.$draw() as u32, s.$draw() as u32];
            let c = [P::from_bits(cb[0] as _), P::from_bits(cb[1] as _), P::from_bits(cb[2] as _), P::from_bits(cb[3] as _), P::from_bits(cb[4] as _)];
            let pw = powers(xb as u32);
            let p = exact_stage(&pw, cb[0], &cb[1..3]);
            let want = exact_stage(&pw, p, &cb[3..5]);
            let got = P::from_bits(xb).poly4a(&c).to_bits();
            cover!(got & 1 == 1 && got != 1);
            Outcome::eq(got as u64, want as u64)
        }
    };
}
fn sext32(v: u128) -> u128 {
    v as u32 as i32 as i128 as u128
}
fn ident(v: u128) -> u128 {
    v
}
pub mod p8 {
    bodies!(softposit::P8E0, softposit::Q8E0, u8, 8, 0, 12, (0x8000_0000u32 as i32 as i128) as u128, sext32);
}
pub mod p16 {
    bodies!(softposit::P16E1, softposit::Q16E1, u16, 16, 1, 56, 1u128 << 127, ident);
}
pub mod p32 {
    // P32: staging only (the 512-bit exact reference is C04's); see DESIGN §7 C18
    use super::*;
    type P = softposit::P32E2;
    type Q = softposit::Q32E2;
    fn stage(x: P, x2: P, lead: P, rest: &[P]) -> P {
        let k = rest.len();
        let pw = [P::ONE, x, x2];
        let mut q = Q::init();
        let mut i = 0;
        while i < k {
            q += (pw[i], rest[k - 1 - i]);
            i += 1;
        }
        q += (pw[k], lead);
        q.to_posit()
    }
    pub fn poly1_staging<S: Src>(s: &mut S) -> Outcome {
        let x = P::from_bits(s.u32());
        let c = [P::from_bits(s.u32()), P::from_bits(s.u32())];
        let got = x.poly1(&c).to_bits();
        cover!(got & 1 == 1 && got != 1);
        Outcome::eq(got as u64, stage(x, x, c[0], &c[1..]).to_bits() as u64)
    }
    pub fn poly2_staging<S: Src>(s: &mut S) -> Outcome {
        let x = P::from_bits(s.u32());
        let c = [P::from_bits(s.u32()), P::from_bits(s.u32()), P::from_bits(s.u32())];
        let got = x.poly2(&c).to_bits();
        cover!(got & 1 == 1 && got != 1);
        Outcome::eq(got as u64, stage(x, x * x, c[0], &c[1..]).to_bits() as u64)
    }
}
