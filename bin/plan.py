"""Harness plan: the single source of truth for which Kani harnesses exist, what they bound and which
tier runs them. /verif/bin/check generates the Kani proof wrappers and the native replay dispatcher
from this file on every run."""


class H:
    def __init__(self, name, body, *, unwind, tier="quick", timeout=120, stubs=(), gen="", funcs=(),
                 space_bits=0, bound="", covers=1, mem_gb=6, note="", slice_of=None, expect_stub=None):
        self.name = name            # harness name (unique)
        self.body = body            # path below vh::props, e.g. "c08::p32_to_p16"
        self.gen = gen              # const generic arguments, e.g. "8" -> body::<8, S>
        self.unwind = unwind
        self.tier = tier            # "quick": both tiers; "thorough": thorough only
        self.timeout = timeout      # wall-clock cap in seconds (already ~4x the measured time)
        self.stubs = tuple(stubs)   # (original, replacement) pairs
        self.funcs = tuple(funcs)   # real functions encoded
        self.space_bits = space_bits  # log2 of the symbolic input space
        self.bound = bound          # slice predicate / bound in words
        self.covers = covers        # minimum number of cover properties that must be SATISFIED
        self.mem_gb = mem_gb
        self.note = note
        self.slice_of = slice_of    # name of the partition this harness is a slice of


PLAN = {}


def reg(prop, *hs):
    PLAN.setdefault(prop, []).extend(hs)


LLDIV = ("softposit::lldiv", "vh::stubs::lldiv_stub")
DIV32 = ("softposit::div", "vh::stubs::div_stub")

# ------------------------------------------------------------------ C08
reg("C08",
    H("c08_p32_to_p16", "c08::p32_to_p16", unwind=33, funcs=["P16E1::from_p32e2", "From<P32E2> for P16E1", "P32E2::to_p16e1"], space_bits=32, bound="every P32E2 bit pattern"),
    H("c08_p32_to_p8", "c08::p32_to_p8", unwind=33, funcs=["P8E0::from_p32e2", "From<P32E2> for P8E0"], space_bits=32, bound="every P32E2 bit pattern"),
    H("c08_p16_to_p8", "c08::p16_to_p8", unwind=17, funcs=["P8E0::from_p16e1", "From<P16E1> for P8E0"], space_bits=16, bound="every P16E1 bit pattern"),
    H("c08_p16_to_p32", "c08::p16_to_p32", unwind=33, funcs=["P32E2::from_p16e1", "P16E1::from_p32e2"], space_bits=16, bound="every P16E1 bit pattern"),
    H("c08_p8_to_p32", "c08::p8_to_p32", unwind=33, funcs=["P32E2::from_p8e0", "P8E0::from_p32e2"], space_bits=8, bound="every P8E0 bit pattern"),
    H("c08_p8_to_p16", "c08::p8_to_p16", unwind=17, funcs=["P16E1::from_p8e0", "P8E0::from_p16e1"], space_bits=8, bound="every P8E0 bit pattern"),
    )
