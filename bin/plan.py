"""Harness plan: the single source of truth for which Kani harnesses exist, what they bound and which
tier runs them. /verif/bin/check generates the Kani proof wrappers and the native replay dispatcher
from this file on every run."""


class H:
    def __init__(self, name, body, *, unwind, tier="quick", timeout=120, stubs=(), gen="", funcs=(),
                 space_bits=0, bound="", covers=1, mem_gb=6, note="", slice_of=None, expect_stub=None):
        self.name = name            # harness name (unique)
        self.body = body            # path below vh::props, e.g. "c08::p32_to_p16"
        self.gen = gen              # const generic arguments, e.g. "8" -> body::<8, S>
        self.unwind = unwind
        self.tier = tier            # "quick": both tiers; "thorough": thorough only
        self.timeout = timeout      # wall-clock cap in seconds (already ~4x the measured time)
        self.stubs = tuple(stubs)   # (original, replacement) pairs
        self.funcs = tuple(funcs)   # real functions encoded
        self.space_bits = space_bits  # log2 of the symbolic input space
        self.bound = bound          # slice predicate / bound in words
        self.covers = covers        # minimum number of cover properties that must be SATISFIED
        self.mem_gb = mem_gb
        self.note = note
        self.slice_of = slice_of    # name of the partition this harness is a slice of


PLAN = {}


def reg(prop, *hs):
    PLAN.setdefault(prop, []).extend(hs)


LLDIV = ("softposit::lldiv", "vh::stubs::lldiv_stub")
DIV32 = ("softposit::div", "vh::stubs::div_stub")

# ------------------------------------------------------------------ C08
reg("C08",
    H("c08_p32_to_p16", "c08::p32_to_p16", unwind=33, funcs=["P16E1::from_p32e2", "From<P32E2> for P16E1", "P32E2::to_p16e1"], space_bits=32, bound="every P32E2 bit pattern"),
    H("c08_p32_to_p8", "c08::p32_to_p8", unwind=33, funcs=["P8E0::from_p32e2", "From<P32E2> for P8E0"], space_bits=32, bound="every P32E2 bit pattern"),
    H("c08_p16_to_p8", "c08::p16_to_p8", unwind=17, funcs=["P8E0::from_p16e1", "From<P16E1> for P8E0"], space_bits=16, bound="every P16E1 bit pattern"),
    H("c08_p16_to_p32", "c08::p16_to_p32", unwind=33, funcs=["P32E2::from_p16e1", "P16E1::from_p32e2"], space_bits=16, bound="every P16E1 bit pattern"),
    H("c08_p8_to_p32", "c08::p8_to_p32", unwind=33, funcs=["P32E2::from_p8e0", "P8E0::from_p32e2"], space_bits=8, bound="every P8E0 bit pattern"),
    H("c08_p8_to_p16", "c08::p8_to_p16", unwind=17, funcs=["P16E1::from_p8e0", "P8E0::from_p16e1"], space_bits=8, bound="every P8E0 bit pattern"),
    )

TYPES = [("p8", "P8E0", 8, 9), ("p16", "P16E1", 16, 17), ("p32", "P32E2", 32, 33)]
FMT_STUB = ("<f64 as core::fmt::Display>::fmt", "vh::stubs::f64_fmt_stub")
PARSE_STUB = ("<f64 as core::str::FromStr>::from_str", "vh::stubs::f64_from_str_stub")

# ------------------------------------------------------------------ C02
for t, T, n, uw in TYPES:
    reg("C02",
        H("c02_%s_from_f32" % t, "c02::%s::from_f32" % t, unwind=uw + 16, covers=2, funcs=["%s::from_f32" % T, "From<f32> for %s" % T], space_bits=32, bound="every f32 bit pattern (NaN, infinities, subnormals included)"),
        H("c02_%s_from_f64" % t, "c02::%s::from_f64" % t, unwind=uw + 16, covers=2, funcs=["%s::from_f64" % T, "From<f64> for %s" % T], space_bits=64, bound="every f64 bit pattern"),
        H("c02_%s_f32_f64_agree" % t, "c02::%s::f32_f64_agree" % t, unwind=uw + 16, funcs=["%s::from_f32" % T, "%s::from_f64" % T], space_bits=32, bound="every f32 bit pattern; widening cast by CBMC's IEEE model"),
        )

# ------------------------------------------------------------------ C03
for t, T, n, uw in TYPES:
    reg("C03",
        H("c03_%s_to_f64" % t, "c03::%s::to_f64" % t, unwind=uw, funcs=["%s::to_f64" % T, "From<%s> for f64" % T], space_bits=n, bound="every %s bit pattern" % T),
        H("c03_%s_to_f32" % t, "c03::%s::to_f32" % t, unwind=uw, funcs=["%s::to_f32" % T, "From<%s> for f32" % T], space_bits=n, bound="every %s bit pattern" % T),
        H("c03_%s_f64_roundtrip" % t, "c03::%s::f64_roundtrip" % t, unwind=uw + 16, funcs=["%s::to_f64" % T, "%s::from_f64" % T], space_bits=n, bound="every %s bit pattern" % T),
        H("c03_%s_display_wiring" % t, "c03::%s::display_wiring" % t, unwind=uw, stubs=[FMT_STUB], funcs=["Display for %s" % T], space_bits=n,
          bound="every %s bit pattern; f64 formatting replaced by a recording stub (std contract: `{}` prints a string that parses back to the same f64)" % T),
        H("c03_%s_fromstr_wiring" % t, "c03::%s::fromstr_wiring" % t, unwind=uw + 16, stubs=[PARSE_STUB], funcs=["FromStr for %s" % T], space_bits=64,
          bound="every f64 the std parser can return; f64 parsing replaced by a stub returning an arbitrary f64"),
        )

# ------------------------------------------------------------------ C07
for t, T, n, uw in TYPES:
    for f, bits in (("from_i64", 64), ("from_u64", 64), ("from_i32", 32), ("from_u32", 32)):
        reg("C07", H("c07_%s_%s" % (t, f), "c07::%s::%s" % (t, f), unwind=66, funcs=["%s::%s" % (T, f)] + (["%s::from_isize" % T] if f == "from_i64" else ["%s::from_usize" % T] if f == "from_u64" else ["%s::from_i16" % T, "%s::from_i8" % T] if f == "from_i32" else ["%s::from_u16" % T, "%s::from_u8" % T]),
                     space_bits=bits, bound="every %d-bit integer" % bits))
    for f in ("to_i32", "to_u32", "to_i64", "to_u64"):
        reg("C07", H("c07_%s_%s" % (t, f), "c07::%s::%s" % (t, f), unwind=uw, funcs=["%s::%s" % (T, f)], space_bits=n, bound="every non-NaR %s bit pattern" % T))

# ------------------------------------------------------------------ C09
for t, T, n, uw in TYPES:
    for f in ("round", "floor", "ceil", "trunc", "fract"):
        reg("C09", H("c09_%s_%s" % (t, f), "c09::%s::%s" % (t, f), unwind=uw, funcs=["%s::%s" % (T, f)], space_bits=n, bound="every %s bit pattern" % T))

# ------------------------------------------------------------------ C10
for t, T, n, uw in TYPES:
    reg("C10",
        H("c10_%s_compare" % t, "c10::%s::compare" % t, unwind=uw, funcs=["%s: ==,!=,<,<=,>,>=,eq,lt,le,gt,ge,cmp,Ord,PartialOrd,min,max" % T], space_bits=2 * n, bound="every operand pair"),
        H("c10_%s_clamp" % t, "c10::%s::clamp" % t, unwind=uw, funcs=["%s::clamp" % T], space_bits=3 * n, bound="every triple with lo <= hi"),
        H("c10_%s_unary" % t, "c10::%s::unary" % t, unwind=uw, funcs=["%s: neg, abs, signum, is_sign_positive, is_sign_negative, is_zero, is_nar, is_nan, is_finite, classify" % T], space_bits=n, bound="every bit pattern"),
        H("c10_%s_copysign" % t, "c10::%s::copysign" % t, unwind=uw, funcs=["%s::copysign" % T], space_bits=2 * n, bound="every pair with a non-NaR sign source"),
        )
C10_QUICK_N = {2, 3, 4, 5, 8, 13, 16, 24, 31, 32}
for es, P in ((1, "pxe1"), (2, "pxe2")):
    for N in range(2, 33):
        reg("C10", H("c10_%s_compare_%d" % (P, N), "c10::%s::compare" % P, gen=str(N), unwind=34, tier="quick" if N in C10_QUICK_N else "thorough",
                     funcs=["Px%s<%d>: ==,!=,<,<=,>,>=,eq,lt,le,gt,ge,cmp,Ord,PartialOrd,is_zero,is_nar" % (P[2:].upper(), N)], space_bits=2 * N, bound="every pair of %d-bit patterns (low %d bits zero)" % (N, 32 - N)))

# ------------------------------------------------------------------ C19
for t, T, n, uw in TYPES:
    reg("C19", H("c19_%s_sample" % t, "c19::%s::sample" % t, unwind=uw + 2, covers=2, funcs=["Distribution<%s> for Standard" % T, "%s::sub" % T], space_bits=96,
                 bound="every RNG stream of <= 3 arbitrary words followed by zeros"))
