//! Input sources: one harness body, two drivers (Kani / native replay).

/// Result of one harness body evaluation.
#[derive(Clone, Copy)]
pub struct Outcome {
    /// inputs were outside this harness's domain (a failed `assume`) — only ever set natively
    pub skipped: bool,
    pub ok: bool,
    pub got: [u64; 8],
    pub want: [u64; 8],
    /// number of meaningful words in got/want
    pub words: u8,
}

impl Outcome {
    #[inline(always)]
    pub fn eq(got: u64, want: u64) -> Self {
        let mut g = [0u64; 8];
        let mut w = [0u64; 8];
        g[0] = got;
        w[0] = want;
        Outcome { skipped: false, ok: got == want, got: g, want: w, words: 1 }
    }
    #[inline(always)]
    pub fn eq8(got: [u64; 8], want: [u64; 8]) -> Self {
        let ok = crate::refmodel::eq512(&got, &want);
        Outcome { skipped: false, ok, got, want, words: 8 }
    }
    #[inline(always)]
    pub fn cond(ok: bool) -> Self {
        Outcome { skipped: false, ok, got: [ok as u64, 0, 0, 0, 0, 0, 0, 0], want: [1, 0, 0, 0, 0, 0, 0, 0], words: 1 }
    }
    #[inline(always)]
    pub fn skip() -> Self {
        Outcome { skipped: true, ok: true, got: [0; 8], want: [0; 8], words: 0 }
    }
    /// both must hold; reports the first failing one
    #[inline(always)]
    pub fn and(self, other: Outcome) -> Self {
        if !self.ok {
            self
        } else {
            other
        }
    }
}

pub trait Src {
    /// true under Kani: nondeterministic witnesses (integer quotient / root) are drawn from the
    /// solver; false natively: they are computed.
    const SYMBOLIC: bool;
    fn u8(&mut self) -> u8;
    fn u16(&mut self) -> u16;
    fn u32(&mut self) -> u32;
    fn u64(&mut self) -> u64;
    fn bool(&mut self) -> bool;
    /// returns false if (natively) the condition does not hold; under Kani it is an assumption
    fn assume(&mut self, c: bool) -> bool;
}

#[macro_export]
macro_rules! assume {
    ($s:expr, $c:expr) => {
        if !$s.assume($c) {
            return $crate::src::Outcome::skip();
        }
    };
}

/// vacuity witness: must be SATISFIED under Kani; nothing natively
#[macro_export]
macro_rules! cover {
    ($c:expr) => {
        #[cfg(kani)]
        kani::cover!($c);
        #[cfg(not(kani))]
        let _ = $c;
    };
}

#[cfg(kani)]
pub struct KaniSrc;
#[cfg(kani)]
impl Src for KaniSrc {
    const SYMBOLIC: bool = true;
    #[inline(always)]
    fn u8(&mut self) -> u8 {
        kani::any()
    }
    #[inline(always)]
    fn u16(&mut self) -> u16 {
        kani::any()
    }
    #[inline(always)]
    fn u32(&mut self) -> u32 {
        kani::any()
    }
    #[inline(always)]
    fn u64(&mut self) -> u64 {
        kani::any()
    }
    #[inline(always)]
    fn bool(&mut self) -> bool {
        kani::any()
    }
    #[inline(always)]
    fn assume(&mut self, c: bool) -> bool {
        kani::assume(c);
        true
    }
}

#[cfg(kani)]
#[inline(always)]
pub fn run_kani(body: fn(&mut KaniSrc) -> Outcome) {
    let o = body(&mut KaniSrc);
    assert!(o.ok, "VH-MISMATCH: implementation differs from the reference");
}

/// native replay of the values printed by Kani's concrete playback (one byte vector per
/// `kani::any()` call, in call order; surplus values — those consumed by stubs under Kani — are
/// ignored, missing ones read as zero)
pub struct ReplaySrc {
    pub vals: Vec<Vec<u8>>,
    pub pos: usize,
    pub underflow: bool,
}
impl ReplaySrc {
    pub fn new(vals: Vec<Vec<u8>>) -> Self {
        ReplaySrc { vals, pos: 0, underflow: false }
    }
    fn next(&mut self, nbytes: usize) -> u64 {
        if self.pos >= self.vals.len() {
            self.underflow = true;
            return 0;
        }
        let v = &self.vals[self.pos];
        self.pos += 1;
        let mut x = 0u64;
        for (i, b) in v.iter().enumerate().take(nbytes.min(8)) {
            x |= (*b as u64) << (8 * i);
        }
        x
    }
}
impl Src for ReplaySrc {
    const SYMBOLIC: bool = false;
    fn u8(&mut self) -> u8 {
        self.next(1) as u8
    }
    fn u16(&mut self) -> u16 {
        self.next(2) as u16
    }
    fn u32(&mut self) -> u32 {
        self.next(4) as u32
    }
    fn u64(&mut self) -> u64 {
        self.next(8)
    }
    fn bool(&mut self) -> bool {
        self.next(1) & 1 != 0
    }
    fn assume(&mut self, c: bool) -> bool {
        c
    }
}
