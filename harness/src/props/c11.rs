//! C11 P16E1 / P8E0 elementary functions vs correctly rounded tables (oracle/gen_tables.py)
use crate::tables as t;
use crate::{cover, Outcome, Src};
use softposit::{P16E1, P8E0};

macro_rules! f16 {
    ($name:ident, $method:ident, $tab:ident) => {
        /// slice K of 16 by the top 4 input bits; K == 16: the 256 "edge" inputs within 32 patterns of 0, 1, NaR
        /// and -1 (minpos, maxpos, the longest regimes and the neighbourhood of 1 on both signs); K > 16: no restriction
        pub fn $name<const K: u32, S: Src>(s: &mut S) -> Outcome {
            let x = s.u16();
            crate::assume!(s, K > 16 || (K == 16 && (x.wrapping_add(32) & 0x3fff) < 64) || (x >> 12) as u32 == K);
            let got = P16E1::from_bits(x).$method().to_bits();
            cover!(x & 1 == 1);
            // index only the slice's 4096 entries (a 4096-way instead of a 65536-way selection for the solver)
            let want = if K < 16 { t::$tab[(K as usize) << 12 | (x & 0xfff) as usize] } else { t::$tab[x as usize] };
            Outcome::eq(got as u64, want as u64)
        }
    };
}
f16!(exp, exp, EXP16);
f16!(exp2, exp2, EXP2_16);
f16!(ln, ln, LN16);
f16!(log2, log2, LOG2_16);
f16!(sin_pi, sin_pi, SINPI16);
f16!(cos_pi, cos_pi, COSPI16);
f16!(tan_pi, tan_pi, TANPI16);
f16!(asin_pi, asin_pi, ASINPI16);
f16!(acos_pi, acos_pi, ACOSPI16);
f16!(atan_pi, atan_pi, ATANPI16);

pub fn exp8<S: Src>(s: &mut S) -> Outcome {
    let x = s.u8();
    let got = P8E0::from_bits(x).exp().to_bits();
    cover!(x & 1 == 1);
    Outcome::eq(got as u64, t::EXP8[x as usize] as u64)
}
pub fn ln8<S: Src>(s: &mut S) -> Outcome {
    let x = s.u8();
    let got = P8E0::from_bits(x).ln().to_bits();
    cover!(x & 1 == 1);
    Outcome::eq(got as u64, t::LN8[x as usize] as u64)
}
