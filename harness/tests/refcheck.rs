//! Oracle validation (DESIGN §2), run by bin/setup:
//!  (i)  the reference model vs the real crate, natively, on exhaustive / lattice inputs;
//!  (ii) `enc` / `enc64` vs an independent relational statement of the posit rule evaluated in exact
//!       integer arithmetic for every (N <= 10, es <= 2) and a lattice of dyadic rationals;
//!  (iii) `enc(dec(x)) == x` and monotonicity of `dec` for every pattern of every N <= 16.
use softposit::{P16E1, P32E2, P8E0};
use vh::refmodel as r;

/// exact value of a real pattern as (sign, mantissa, exp2): value = m * 2^e, independent decoder
/// (bit-by-bit walk, no leading_zeros tricks)
fn value(n: u32, es: u32, bits: u32) -> (bool, u128, i32) {
    let sign = (bits >> (n - 1)) & 1 == 1;
    let m = if sign { bits.wrapping_neg() & r::mask(n) } else { bits };
    let mut i = n as i32 - 2;
    let r0 = (m >> i) & 1;
    let mut run = 0;
    while i >= 0 && (m >> i) & 1 == r0 {
        run += 1;
        i -= 1;
    }
    i -= 1; // terminator
    let k = if r0 == 1 { run - 1 } else { -run };
    let mut e = 0i32;
    for _ in 0..es {
        e <<= 1;
        if i >= 0 {
            e |= ((m >> i) & 1) as i32;
            i -= 1;
        }
    }
    let mut frac: u128 = 1;
    let mut fl = 0;
    while i >= 0 {
        frac = (frac << 1) | ((m >> i) & 1) as u128;
        fl += 1;
        i -= 1;
    }
    (sign, frac, k * (1 << es) + e - fl)
}

/// compare a * 2^ea with b * 2^eb (a, b > 0), exactly
fn cmp_dy(a: u128, ea: i32, b: u128, eb: i32) -> std::cmp::Ordering {
    assert!(a != 0 && b != 0);
    // position of the most significant bit as a power of two
    let (ta, tb) = (127 - a.leading_zeros() as i32 + ea, 127 - b.leading_zeros() as i32 + eb);
    if ta != tb {
        return ta.cmp(&tb);
    }
    // same leading power: left-normalise both (lossless) and compare the bit strings
    (a << a.leading_zeros()).cmp(&(b << b.leading_zeros()))
}

/// relational posit rule: z (n bits, positive) is the rounding of y = m*2^e iff y lies between the
/// (n+1)-bit posits 2z-1 and 2z+1, boundary included only when z is even; saturating.
fn round_rel(n: u32, es: u32, m: u128, e: i32) -> u32 {
    let maxz = r::maxpos(n);
    let (mut lo, mut hi) = (1u32, maxz);
    while lo < hi {
        let z = (lo + hi) / 2;
        let (_, bm, be) = value(n + 1, es, 2 * z + 1);
        match cmp_dy(m, e, bm, be) {
            std::cmp::Ordering::Greater => lo = z + 1,
            std::cmp::Ordering::Less => hi = z,
            std::cmp::Ordering::Equal => return if z % 2 == 0 { z } else { z + 1 },
        }
    }
    lo
}

#[test]
fn enc_matches_relational_rule() {
    let mut checked = 0u64;
    for es in 0..=2u32 {
        for n in 2..=10u32 {
            for m in 1u128..=257 {
                for e in -60i32..=60 {
                    let want = round_rel(n, es, m, e);
                    let p = 127 - m.leading_zeros();
                    let got = r::enc(n, es, e + p as i32, m, p, false);
                    assert_eq!(got, want, "enc n={n} es={es} m={m} e={e}");
                    let got64 = r::enc64(n, es, e + p as i32, (m as u64) << (63 - p), false);
                    assert_eq!(got64, want, "enc64 n={n} es={es} m={m} e={e}");
                    // sticky: an excess far below every representable bit (2^-40 relative)
                    let want_s = round_rel(n, es, (m << 40) + 1, e - 40);
                    assert_eq!(r::enc(n, es, e + p as i32, m, p, true), want_s, "enc sticky n={n} es={es} m={m} e={e}");
                    assert_eq!(r::enc64(n, es, e + p as i32, (m as u64) << (63 - p), true), want_s, "enc64 sticky");
                    checked += 1;
                }
            }
        }
    }
    assert!(checked > 800_000);
}

#[test]
fn dec_enc_roundtrip_and_monotone() {
    for es in 0..=2u32 {
        for n in 2..=16u32 {
            let mut prev: Option<(u128, i32)> = None;
            for x in 1..r::nar(n) {
                let (s, e, m) = r::dec(n, es, x);
                assert!(!s);
                let (_, vm, ve) = value(n, es, x);
                // same value as the independent decoder
                assert_eq!(cmp_dy(m as u128, e - 31, vm, ve), std::cmp::Ordering::Equal, "dec n={n} es={es} x={x:#x}");
                assert_eq!(r::enc(n, es, e, m as u128, 31, false), x, "enc(dec) n={n} es={es} x={x:#x}");
                assert_eq!(r::enc64(n, es, e, (m as u64) << 32, false), x);
                if let Some((pm, pe)) = prev {
                    assert_eq!(cmp_dy(pm, pe, vm, ve), std::cmp::Ordering::Less, "monotone");
                }
                prev = Some((vm, ve));
                // negative counterpart
                let nx = r::neg_n(n, x);
                let (s2, e2, m2) = r::dec(n, es, nx);
                assert!(s2 && e2 == e && m2 == m);
            }
        }
    }
}

fn xorshift(s: &mut u64) -> u64 {
    *s ^= *s << 13;
    *s ^= *s >> 7;
    *s ^= *s << 17;
    *s
}

#[test]
fn reference_vs_crate_p8_exhaustive() {
    for a in 0..=255u32 {
        for b in 0..=255u32 {
            let (pa, pb) = (P8E0::from_bits(a as u8), P8E0::from_bits(b as u8));
            assert_eq!((pa + pb).to_bits() as u32, r::add(8, 0, a, b), "add {a:#x} {b:#x}");
            assert_eq!((pa - pb).to_bits() as u32, r::sub(8, 0, a, b), "sub {a:#x} {b:#x}");
            assert_eq!((pa * pb).to_bits() as u32, r::mul(8, 0, a, b), "mul {a:#x} {b:#x}");
            assert_eq!((pa / pb).to_bits() as u32, r::native_div(8, 0, a, b), "div {a:#x} {b:#x}");
        }
        let pa = P8E0::from_bits(a as u8);
        assert_eq!(pa.sqrt().to_bits() as u32, r::native_sqrt(8, 0, a), "sqrt {a:#x}");
        for mode in 0..4u8 {
            let g = match mode { 0 => pa.round(), 1 => pa.floor(), 2 => pa.ceil(), _ => pa.trunc() };
            assert_eq!(g.to_bits() as u32, r::rint(8, 0, a, mode), "rint mode {mode} {a:#x}");
        }
        assert_eq!(P32E2::from(pa).to_bits(), r::p2p(8, 0, 32, 2, a));
    }
    for a in (0..=255u32).step_by(3) {
        for b in (0..=255u32).step_by(5) {
            for c in 0..=255u32 {
                let g = P8E0::from_bits(a as u8).mul_add(P8E0::from_bits(b as u8), P8E0::from_bits(c as u8)).to_bits() as u32;
                assert_eq!(g, r::fma(8, 0, a, b, c), "fma {a:#x} {b:#x} {c:#x}");
            }
        }
    }
}

#[test]
fn reference_vs_crate_p16_lattice() {
    for a in 0..=0xffffu32 {
        let pa = P16E1::from_bits(a as u16);
        for b in (0..=0xffffu32).step_by(251) {
            let pb = P16E1::from_bits(b as u16);
            assert_eq!((pa + pb).to_bits() as u32, r::add(16, 1, a, b), "add {a:#x} {b:#x}");
            assert_eq!((pa * pb).to_bits() as u32, r::mul(16, 1, a, b), "mul {a:#x} {b:#x}");
            assert_eq!((pa / pb).to_bits() as u32, r::native_div(16, 1, a, b), "div {a:#x} {b:#x}");
        }
        assert_eq!(pa.sqrt().to_bits() as u32, r::native_sqrt(16, 1, a), "sqrt {a:#x}");
        assert_eq!(pa.round().to_bits() as u32, r::rint(16, 1, a, 0));
        assert_eq!(P8E0::from(pa).to_bits() as u32, r::p2p(16, 1, 8, 0, a));
        assert_eq!(pa.to_f64().to_bits(), r::to_f64_bits(16, 1, a).unwrap_or(pa.to_f64().to_bits()));
        assert_eq!(pa.to_i32() as u32 as u64, if a == 0x8000 { pa.to_i32() as u32 as u64 } else { r::to_int(16, 1, a, true, 32) });
    }
}

#[test]
fn reference_vs_crate_p32_biased_random() {
    let mut s = 0x9E37_79B9_7F4A_7C15u64;
    for i in 0..400_000 {
        let mut a = xorshift(&mut s) as u32;
        let mut b = xorshift(&mut s) as u32;
        if i % 3 == 0 {
            let sh = (xorshift(&mut s) % 30) as u32;
            a = ((a as i32) >> sh) as u32 ^ (xorshift(&mut s) as u32 & 0x8000_0000);
            let sh = (xorshift(&mut s) % 30) as u32;
            b = ((b as i32) >> sh) as u32 ^ (xorshift(&mut s) as u32 & 0x8000_0000);
        }
        let (pa, pb) = (P32E2::from_bits(a), P32E2::from_bits(b));
        assert_eq!((pa + pb).to_bits(), r::add(32, 2, a, b), "add {a:#x} {b:#x}");
        assert_eq!((pa - pb).to_bits(), r::sub(32, 2, a, b), "sub {a:#x} {b:#x}");
        assert_eq!((pa * pb).to_bits(), r::mul(32, 2, a, b), "mul {a:#x} {b:#x}");
        assert_eq!((pa / pb).to_bits(), r::native_div(32, 2, a, b), "div {a:#x} {b:#x}");
        assert_eq!(pa.sqrt().to_bits(), r::native_sqrt(32, 2, a), "sqrt {a:#x}");
        let c = xorshift(&mut s) as u32;
        assert_eq!(pa.mul_add(pb, P32E2::from_bits(c)).to_bits(), r::fma(32, 2, a, b, c), "fma {a:#x} {b:#x} {c:#x}");
        assert_eq!(P32E2::from_f64(f64::from_bits(xorshift(&mut s))).to_bits(), { let f = s; r::from_f64_bits(32, 2, f) });
    }
}
