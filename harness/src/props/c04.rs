//! C04 quire accumulation: one inductive step from an ARBITRARY state, to_posit on an arbitrary state
use crate::refmodel as r;
use crate::{cover, Outcome, Src};
use softposit::{P16E1, P32E2, P8E0, Q16E1, Q32E2, Q8E0};

fn out128(got: u128, want: u128) -> Outcome {
    Outcome::eq8([(got >> 64) as u64, got as u64, 0, 0, 0, 0, 0, 0], [(want >> 64) as u64, want as u64, 0, 0, 0, 0, 0, 0])
}
fn draw128<S: Src>(s: &mut S) -> u128 {
    let hi = s.u64();
    let lo = s.u64();
    ((hi as u128) << 64) | lo as u128
}
pub fn draw512<S: Src>(s: &mut S) -> [u64; 8] {
    [s.u64(), s.u64(), s.u64(), s.u64(), s.u64(), s.u64(), s.u64(), s.u64()]
}

// ------------------------------------------------------------------------------------------ Q8
pub mod q8 {
    use super::*;
    const NAR: u32 = 0x8000_0000;
    /// `op`: 0 `+= (a,b)`, 1 `-= (a,b)`, 2 `+= a`, 3 `-= a`
    pub fn step<S: Src>(s: &mut S) -> Outcome {
        let pre = s.u32();
        let (a, b) = (s.u8(), s.u8());
        let op = s.u8();
        crate::assume!(s, op < 4);
        let mut q = Q8E0::from_bits(pre);
        let (pa, pb) = (P8E0::from_bits(a), P8E0::from_bits(b));
        match op {
            0 => q += (pa, pb),
            1 => q -= (pa, pb),
            2 => q += pa,
            _ => q -= pa,
        }
        let got = q.to_bits();
        let b_eff = if op >= 2 { 0x40u8 } else { b }; // * ONE
        let want = if pre == NAR || a == 0x80 || b_eff == 0x80 {
            NAR
        } else if a == 0 || b_eff == 0 {
            pre
        } else {
            let t = r::prod_term128(8, 0, a as u32, b_eff as u32, 12) as u32;
            let t = if op & 1 == 1 { t.wrapping_neg() } else { t };
            let w = pre.wrapping_add(t);
            // property precondition: the exact sum stays inside the quire's range (the all-ones-sign
            // pattern 0x8000_0000 is NaR, not a sum)
            crate::assume!(s, w != NAR);
            w
        };
        cover!(got != pre && pre != 0 && got & 0xfff != 0 && op == 1);
        cover!(got == NAR);
        Outcome::eq(got as u64, want as u64)
    }
    pub fn predicates<S: Src>(s: &mut S) -> Outcome {
        let v = s.u32();
        let q = Q8E0::from_bits(v);
        cover!(v == NAR);
        Outcome::cond(q.is_zero() == (v == 0) && q.is_nar() == (v == NAR))
    }
    pub fn to_posit<S: Src>(s: &mut S) -> Outcome {
        let v = s.u32();
        let got = Q8E0::from_bits(v).to_posit().to_bits();
        let want = r::quire128_to_posit(8, 0, v as i32 as i128 as u128, 12, (NAR as i32 as i128) as u128);
        cover!(got & 1 == 1 && got != 1 && v >> 31 == 1);
        Outcome::eq(got as u64, want as u64)
    }
    /// tuple / array spellings equal the sequence of single steps
    pub fn spellings<S: Src>(s: &mut S) -> Outcome {
        let pre = s.u32();
        let (a, b, c, d) = (P8E0::from_bits(s.u8()), P8E0::from_bits(s.u8()), P8E0::from_bits(s.u8()), P8E0::from_bits(s.u8()));
        let plus = s.bool();
        let seq = |pairs: &[(P8E0, P8E0)]| {
            let mut q = Q8E0::from_bits(pre);
            for (x, y) in pairs {
                if plus {
                    q += (*x, *y)
                } else {
                    q -= (*x, *y)
                }
            }
            q.to_bits()
        };
        let mut q1 = Q8E0::from_bits(pre);
        let mut q2 = Q8E0::from_bits(pre);
        let mut q3 = Q8E0::from_bits(pre);
        let mut q4 = Q8E0::from_bits(pre);
        if plus {
            q1 += (a, (b, c));
            q2 += ((a, b), (c, d));
            q3 += (a, [b, c, d]);
            q4 += (a, (b, c, d));
        } else {
            q1 -= (a, (b, c));
            q2 -= ((a, b), (c, d));
            q3 -= (a, [b, c, d]);
            q4 -= (a, [b, c, d]); // no 3-tuple form for -=
        }
        cover!(q2.to_bits() != pre && !plus);
        Outcome::eq(q1.to_bits() as u64, seq(&[(a, b), (a, c)]) as u64)
            .and(Outcome::eq(q2.to_bits() as u64, seq(&[(a, c), (a, d), (b, c), (b, d)]) as u64))
            .and(Outcome::eq(q3.to_bits() as u64, seq(&[(a, b), (a, c), (a, d)]) as u64))
            .and(Outcome::eq(q4.to_bits() as u64, seq(&[(a, b), (a, c), (a, d)]) as u64))
    }
}

// ------------------------------------------------------------------------------------------ Q16
pub mod q16 {
    use super::*;
    const NAR: u128 = 1u128 << 127;
    pub fn step<S: Src>(s: &mut S) -> Outcome {
        let pre = draw128(s);
        let (a, b) = (s.u16(), s.u16());
        let op = s.u8();
        crate::assume!(s, op < 4);
        let mut q = Q16E1::from_bits(pre);
        let (pa, pb) = (P16E1::from_bits(a), P16E1::from_bits(b));
        match op {
            0 => q += (pa, pb),
            1 => q -= (pa, pb),
            2 => q += pa,
            _ => q -= pa,
        }
        let got = q.to_bits();
        let b_eff = if op >= 2 { 0x4000u16 } else { b };
        let want = if pre == NAR || a == 0x8000 || b_eff == 0x8000 {
            NAR
        } else if a == 0 || b_eff == 0 {
            pre
        } else {
            let t = r::prod_term128(16, 1, a as u32, b_eff as u32, 56);
            let t = if op & 1 == 1 { t.wrapping_neg() } else { t };
            let w = pre.wrapping_add(t);
            crate::assume!(s, w != NAR);
            w
        };
        cover!(got != pre && pre != 0 && got & 0xfff != 0 && op == 1);
        cover!(got == NAR);
        out128(got, want)
    }
    pub fn predicates<S: Src>(s: &mut S) -> Outcome {
        let v = draw128(s);
        let q = Q16E1::from_bits(v);
        cover!(v == NAR);
        Outcome::cond(q.is_zero() == (v == 0) && q.is_nar() == (v == NAR))
    }
    pub fn to_posit<S: Src>(s: &mut S) -> Outcome {
        let v = draw128(s);
        let got = Q16E1::from_bits(v).to_posit().to_bits();
        let want = r::quire128_to_posit(16, 1, v, 56, NAR);
        cover!(got & 1 == 1 && got != 1 && v >> 127 == 1);
        Outcome::eq(got as u64, want as u64)
    }
    pub fn spellings<S: Src>(s: &mut S) -> Outcome {
        let pre = draw128(s);
        let (a, b, c, d) = (P16E1::from_bits(s.u16()), P16E1::from_bits(s.u16()), P16E1::from_bits(s.u16()), P16E1::from_bits(s.u16()));
        let plus = s.bool();
        let seq = |pairs: &[(P16E1, P16E1)]| {
            let mut q = Q16E1::from_bits(pre);
            for (x, y) in pairs {
                if plus {
                    q += (*x, *y)
                } else {
                    q -= (*x, *y)
                }
            }
            q.to_bits()
        };
        let mut q1 = Q16E1::from_bits(pre);
        let mut q2 = Q16E1::from_bits(pre);
        let mut q3 = Q16E1::from_bits(pre);
        if plus {
            q1 += (a, (b, c));
            q2 += ((a, b), (c, d));
            q3 += (a, [b, c, d]);
        } else {
            q1 -= (a, (b, c));
            q2 -= ((a, b), (c, d));
            q3 -= (a, [b, c, d]);
        }
        cover!(q2.to_bits() != pre && !plus);
        out128(q1.to_bits(), seq(&[(a, b), (a, c)]))
            .and(out128(q2.to_bits(), seq(&[(a, c), (a, d), (b, c), (b, d)])))
            .and(out128(q3.to_bits(), seq(&[(a, b), (a, c), (a, d)])))
    }
}

// ------------------------------------------------------------------------------------------ Q32
pub mod q32 {
    use super::*;
    /// `op`: 0 `+= (a,b)`, 1 `-= (a,b)`, 2 `+= a`, 3 `-= a`; one op per harness instance (OP const)
    /// FB < 32: operands restricted to at most FB significant fraction bits each (every regime, exponent and sign, and
    /// every 512-bit state: the carry chain, placement and sign handling are exercised in full, the multiplier is
    /// small); FB >= 32: no restriction
    pub fn step<const OP: u8, const FB: u32, S: Src>(s: &mut S) -> Outcome {
        let pre = draw512(s);
        let (a, b) = (s.u32(), s.u32());
        if FB < 32 {
            if r::is_real(32, a) {
                crate::assume!(s, r::dec(32, 2, a).2 << 1 << FB == 0);
            }
            if OP < 2 && r::is_real(32, b) {
                crate::assume!(s, r::dec(32, 2, b).2 << 1 << FB == 0);
            }
        }
        let mut q = Q32E2::from_bits(pre);
        let (pa, pb) = (P32E2::from_bits(a), P32E2::from_bits(b));
        match OP {
            0 => q += (pa, pb),
            1 => q -= (pa, pb),
            2 => q += pa,
            _ => q -= pa,
        }
        let got = q.to_bits();
        let b_eff = if OP >= 2 { 0x4000_0000u32 } else { b };
        let want = if r::is_nar512(&pre) || a == 0x8000_0000 || b_eff == 0x8000_0000 {
            [1u64 << 63, 0, 0, 0, 0, 0, 0, 0]
        } else if a == 0 || b_eff == 0 {
            pre
        } else {
            let t = r::prod_term512(32, 2, a, b_eff, 240);
            let t = if OP & 1 == 1 { r::neg512(&t) } else { t };
            let w = r::add512(&pre, &t);
            crate::assume!(s, !r::is_nar512(&w));
            w
        };
        cover!(!r::eq512(&got, &pre) && !r::is_zero512(&pre) && got[7] & 0xfff != 0);
        cover!(r::is_nar512(&got));
        Outcome::eq8(got, want)
    }
    pub fn predicates<S: Src>(s: &mut S) -> Outcome {
        let v = draw512(s);
        let q = Q32E2::from_bits(v);
        cover!(r::is_nar512(&v));
        cover!(v[6] != 0 && v[0] == 0);
        Outcome::cond(q.is_zero() == r::is_zero512(&v) && q.is_nar() == r::is_nar512(&v))
    }
    pub fn to_posit<S: Src>(s: &mut S) -> Outcome {
        let v = draw512(s);
        let got = Q32E2::from_bits(v).to_posit().to_bits();
        let want = r::quire512_to_posit(32, 2, &v);
        cover!(got & 1 == 1 && got != 1 && v[0] >> 63 == 1);
        Outcome::eq(got as u64, want as u64)
    }
    pub fn spellings<S: Src>(s: &mut S) -> Outcome {
        let pre = draw512(s);
        let (a, b, c, d) = (P32E2::from_bits(s.u32()), P32E2::from_bits(s.u32()), P32E2::from_bits(s.u32()), P32E2::from_bits(s.u32()));
        let plus = s.bool();
        let seq = |pairs: &[(P32E2, P32E2)]| {
            let mut q = Q32E2::from_bits(pre);
            for (x, y) in pairs {
                if plus {
                    q += (*x, *y)
                } else {
                    q -= (*x, *y)
                }
            }
            q.to_bits()
        };
        let mut q1 = Q32E2::from_bits(pre);
        let mut q2 = Q32E2::from_bits(pre);
        let mut q3 = Q32E2::from_bits(pre);
        if plus {
            q1 += (a, (b, c));
            q2 += ((a, b), (c, d));
            q3 += (a, [b, c, d]);
        } else {
            q1 -= (a, (b, c));
            q2 -= ((a, b), (c, d));
            q3 -= (a, [b, c, d]);
        }
        cover!(!r::eq512(&q2.to_bits(), &pre) && !plus);
        Outcome::eq8(q1.to_bits(), seq(&[(a, b), (a, c)]))
            .and(Outcome::eq8(q2.to_bits(), seq(&[(a, c), (a, d), (b, c), (b, d)])))
            .and(Outcome::eq8(q3.to_bits(), seq(&[(a, b), (a, c), (a, d)])))
    }
}
