//! C07 integer conversions
use crate::refmodel as r;
use crate::{cover, Outcome, Src};

macro_rules! bodies {
    ($P:ty, $draw:ident, $n:expr, $es:expr, $R_TO_U32:expr, $R_TO_U64:expr, $R_TO_I32:expr, $R_TO_I64:expr, $R_FROM_U64:expr) => {
        use super::*;
        pub fn from_i64<S: Src>(s: &mut S) -> Outcome {
            let v = s.u64() as i64;
            let want = r::from_i64($n, $es, v) as u64;
            cover!(want & 1 == 1 && v < -1000);
            Outcome::eq(<$P>::from_i64(v).to_bits() as u64, want)
                .and(Outcome::eq(<$P>::from(v).to_bits() as u64, want))
                .and(Outcome::eq(<$P>::from_isize(v as isize).to_bits() as u64, want))
        }
        pub fn from_u64<S: Src>(s: &mut S) -> Outcome {
            let v = s.u64();
            crate::assume!(s, !($R_FROM_U64 && v >> 63 != 0));
            let want = r::from_u64($n, $es, v) as u64;
            cover!(want & 1 == 1 && v > 1000);
            Outcome::eq(<$P>::from_u64(v).to_bits() as u64, want)
                .and(Outcome::eq(<$P>::from(v).to_bits() as u64, want))
                .and(Outcome::eq(<$P>::from_usize(v as usize).to_bits() as u64, want))
        }
        pub fn from_i32<S: Src>(s: &mut S) -> Outcome {
            let v = s.u32() as i32;
            let want = r::from_i64($n, $es, v as i64) as u64;
            cover!(want & 1 == 1 && v < -1000);
            Outcome::eq(<$P>::from_i32(v).to_bits() as u64, want)
                .and(Outcome::eq(<$P>::from(v).to_bits() as u64, want))
                .and(Outcome::eq(<$P>::from_i16(v as i16).to_bits() as u64, r::from_i64($n, $es, v as i16 as i64) as u64))
                .and(Outcome::eq(<$P>::from_i8(v as i8).to_bits() as u64, r::from_i64($n, $es, v as i8 as i64) as u64))
        }
        pub fn from_u32<S: Src>(s: &mut S) -> Outcome {
            let v = s.u32();
            let want = r::from_u64($n, $es, v as u64) as u64;
            cover!(want & 1 == 1 && v > 1000);
            Outcome::eq(<$P>::from_u32(v).to_bits() as u64, want)
                .and(Outcome::eq(<$P>::from(v).to_bits() as u64, want))
                .and(Outcome::eq(<$P>::from_u16(v as u16).to_bits() as u64, r::from_u64($n, $es, v as u16 as u64) as u64))
                .and(Outcome::eq(<$P>::from_u8(v as u8).to_bits() as u64, r::from_u64($n, $es, v as u8 as u64) as u64))
        }
        pub fn to_i32<S: Src>(s: &mut S) -> Outcome {
            let x = s.$draw();
            crate::assume!(s, x as u32 != r::nar($n));
            crate::assume!(s, !$R_TO_I32(x as u32));
            let p = <$P>::from_bits(x);
            let want = r::to_int($n, $es, x as u32, true, 32);
            cover!(want & 1 == 1 && want > 2);
            Outcome::eq(p.to_i32() as u32 as u64, want).and(Outcome::eq(i32::from(p) as u32 as u64, want))
        }
        pub fn to_u32<S: Src>(s: &mut S) -> Outcome {
            let x = s.$draw();
            crate::assume!(s, x as u32 != r::nar($n));
            crate::assume!(s, !$R_TO_U32(x as u32));
            let p = <$P>::from_bits(x);
            let want = r::to_int($n, $es, x as u32, false, 32);
            cover!(want & 1 == 1 && want > 2);
            Outcome::eq(p.to_u32() as u64, want).and(Outcome::eq(u32::from(p) as u64, want))
        }
        pub fn to_i64<S: Src>(s: &mut S) -> Outcome {
            let x = s.$draw();
            crate::assume!(s, x as u32 != r::nar($n));
            crate::assume!(s, !$R_TO_I64(x as u32));
            let p = <$P>::from_bits(x);
            let want = r::to_int($n, $es, x as u32, true, 64);
            cover!(want & 1 == 1 && want > 2);
            Outcome::eq(p.to_i64() as u64, want).and(Outcome::eq(i64::from(p) as u64, want))
        }
        pub fn to_u64<S: Src>(s: &mut S) -> Outcome {
            let x = s.$draw();
            crate::assume!(s, x as u32 != r::nar($n));
            crate::assume!(s, !$R_TO_U64(x as u32));
            let p = <$P>::from_bits(x);
            let want = r::to_int($n, $es, x as u32, false, 64);
            cover!(want & 1 == 1 && want > 2);
            Outcome::eq(p.to_u64(), want).and(Outcome::eq(u64::from(p), want))
        }
    };
}
fn never(_x: u32) -> bool {
    false
}
pub mod p8 {
    bodies!(softposit::P8E0, u8, 8, 0, never, never, never, never, false);
}
pub mod p16 {
    bodies!(softposit::P16E1, u16, 16, 1, never, never, never, never, false);
}
pub mod p32 {
    bodies!(softposit::P32E2, u32, 32, 2, never, never, never, never, false);
}
