//! C06 square root
use crate::refmodel as r;
use crate::{cover, Outcome, Src};

/// reference root: natively computed; under Kani a nondeterministic witness with r^2 <= nn < (r+1)^2
fn want_sqrt<S: Src>(s: &mut S, n: u32, es: u32, x: u32) -> Option<u32> {
    if r::sign_of(n, x) {
        return Some(r::nar(n));
    }
    if x == 0 {
        return Some(0);
    }
    if !S::SYMBOLIC {
        return Some(r::native_sqrt(n, es, x));
    }
    let (nn, _) = r::sqrt_radicand(n, es, x);
    let w = s.u64();
    if !s.assume(w >= (1u64 << 48) && w < (1u64 << 49)) {
        return None;
    }
    let ww = w as u128;
    if !s.assume(ww * ww <= nn && nn < (ww + 1) * (ww + 1)) {
        return None;
    }
    Some(r::sqrt_from_root(n, es, x, w))
}

macro_rules! bodies {
    ($P:ty, $draw:ident, $n:expr, $es:expr) => {
        use super::*;
        pub fn sqrt<S: Src>(s: &mut S) -> Outcome {
            let x = s.$draw();
            let got = <$P>::from_bits(x).sqrt().to_bits() as u64;
            let want = match want_sqrt(s, $n, $es, x as u32) {
                Some(w) => w,
                None => return Outcome::skip(),
            };
            cover!(got & 1 == 1 && x & 1 == 1 && got > 4);
            Outcome::eq(got, want as u64)
        }
        /// slice by the top 4 bits of the input, T in 0..8: the non-negative inputs (parallelism); T = 8: every negative input and NaR
        pub fn sqrt_top<const T: u32, S: Src>(s: &mut S) -> Outcome {
            let x = s.$draw();
            crate::assume!(s, if T < 8 { (x as u32) >> ($n - 4) == T } else { (x as u32) >> ($n - 1) == 1 });
            let got = <$P>::from_bits(x).sqrt().to_bits() as u64;
            let want = match want_sqrt(s, $n, $es, x as u32) {
                Some(w) => w,
                None => return Outcome::skip(),
            };
            cover!(x & 1 == 1 && (T == 8 || got & 1 == 1));
            Outcome::eq(got, want as u64)
        }
    };
}
pub mod p8 {
    bodies!(softposit::P8E0, u8, 8, 0);
}
pub mod p16 {
    bodies!(softposit::P16E1, u16, 16, 1);
}
pub mod p32 {
    bodies!(softposit::P32E2, u32, 32, 2);
    use softposit::P32E2;
    /// NaR, negative and zero inputs: every one of them
    pub fn sqrt_special<S: Src>(s: &mut S) -> Outcome {
        let x = s.u32();
        crate::assume!(s, x == 0 || x >> 31 == 1);
        let got = P32E2::from_bits(x).sqrt().to_bits() as u64;
        cover!(x != 0 && x != 0x8000_0000);
        Outcome::eq(got, if x == 0 { 0 } else { 0x8000_0000 })
    }
    /// positive inputs whose fraction field has at most F significant bits; regime class REG
    /// (REG = 0..15: top nibble of the positive pattern's low 31 bits, a partition by magnitude)
    pub fn sqrt_fbits<const F: u32, const REG: u32, S: Src>(s: &mut S) -> Outcome {
        let x = s.u32();
        crate::assume!(s, x != 0 && x >> 31 == 0);
        crate::assume!(s, REG >= 16 || (x >> 27) == REG);
        let (_, _, m) = r::dec(32, 2, x);
        crate::assume!(s, m << 1 << F == 0);
        let got = P32E2::from_bits(x).sqrt().to_bits() as u64;
        let want = match want_sqrt(s, 32, 2, x) {
            Some(w) => w,
            None => return Outcome::skip(),
        };
        cover!(got & 1 == 1);
        Outcome::eq(got, want as u64)
    }
    /// top 20 bits fixed to TOP, low 12 bits free (4096 inputs)
    pub fn sqrt_lowbits<const TOP: u32, S: Src>(s: &mut S) -> Outcome {
        let x = s.u32();
        crate::assume!(s, x >> 12 == TOP);
        let got = P32E2::from_bits(x).sqrt().to_bits() as u64;
        let want = match want_sqrt(s, 32, 2, x) {
            Some(w) => w,
            None => return Outcome::skip(),
        };
        cover!(got & 1 == 1 && x & 1 == 1);
        Outcome::eq(got, want as u64)
    }
}
