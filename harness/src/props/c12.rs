//! C12 quire state operations: round trip, neg, clear, bits round trip, residual split
use crate::refmodel as r;
use crate::{cover, Outcome, Src};
use softposit::{P16E1, P32E2, P8E0, Q16E1, Q32E2, Q8E0};
use super::c04::draw512;

fn out128(got: u128, want: u128) -> Outcome {
    Outcome::eq8([(got >> 64) as u64, got as u64, 0, 0, 0, 0, 0, 0], [(want >> 64) as u64, want as u64, 0, 0, 0, 0, 0, 0])
}
fn draw128<S: Src>(s: &mut S) -> u128 {
    let hi = s.u64();
    let lo = s.u64();
    ((hi as u128) << 64) | lo as u128
}
/// exact value of a posit as signed fixed point with `fb` fraction bits (128-bit, wrapping)
fn posit_fx128(n: u32, es: u32, p: u32, fb: i32) -> u128 {
    if p == 0 {
        return 0;
    }
    let (sg, e, m) = r::dec(n, es, p);
    let sh = e - 31 + fb;
    let t = if sh >= 0 { (m as u128) << sh as u32 } else { (m as u128) >> (-sh) as u32 };
    if sg {
        t.wrapping_neg()
    } else {
        t
    }
}
fn posit_fx512(p: u32) -> [u64; 8] {
    if p == 0 {
        return [0; 8];
    }
    let (sg, e, m) = r::dec(32, 2, p);
    let sh = e - 31 + 240;
    let t = if sh >= 0 { r::shl512_u128(m as u128, sh as u32) } else { r::shl512_u128((m as u128) >> (-sh) as u32, 0) };
    if sg {
        r::neg512(&t)
    } else {
        t
    }
}

pub mod q8 {
    use super::*;
    const NAR: u32 = 0x8000_0000;
    pub fn roundtrip<S: Src>(s: &mut S) -> Outcome {
        let x = s.u8();
        let p = P8E0::from_bits(x);
        cover!(x & 1 == 1 && x >> 7 == 1);
        Outcome::eq(Q8E0::from(p).to_posit().to_bits() as u64, x as u64)
            .and(Outcome::eq(Q8E0::from_posit(p).to_posit().to_bits() as u64, x as u64))
            .and(Outcome::eq(P8E0::from(Q8E0::from(p)).to_bits() as u64, x as u64))
    }
    pub fn state_ops<S: Src>(s: &mut S) -> Outcome {
        let v = s.u32();
        let mut q = Q8E0::from_bits(v);
        let same = q.to_bits() == v;
        q.neg();
        let negd = q.to_bits();
        q.neg();
        let back = q.to_bits();
        q.clear();
        cover!(v >> 31 == 1 && v & 1 == 1);
        Outcome::cond(same)
            .and(Outcome::eq(negd as u64, v.wrapping_neg() as u64))
            .and(Outcome::eq(back as u64, v as u64))
            .and(Outcome::cond(q.is_zero() && q.to_bits() == 0 && q.to_posit().to_bits() == 0))
    }
    fn fx(p: u8) -> u32 {
        posit_fx128(8, 0, p as u32, 12) as u32
    }
    fn rnd(v: u32) -> u8 {
        r::quire128_to_posit(8, 0, v as i32 as i128 as u128, 12, (NAR as i32 as i128) as u128) as u8
    }
    pub fn split<S: Src>(s: &mut S) -> Outcome {
        let v = s.u32();
        crate::assume!(s, v != NAR);
        let p1 = rnd(v);
        let s2 = v.wrapping_sub(fx(p1));
        crate::assume!(s, s2 != NAR);
        let p2 = rnd(s2);
        let s3 = s2.wrapping_sub(fx(p2));
        crate::assume!(s, s3 != NAR);
        let p3 = rnd(s3);
        let (a1, a2) = Q8E0::from_bits(v).into_two_posits();
        let (b1, b2, b3) = Q8E0::from_bits(v).into_three_posits();
        cover!(p2 != 0 && p3 != 0);
        Outcome::eq(a1.to_bits() as u64, p1 as u64)
            .and(Outcome::eq(a2.to_bits() as u64, p2 as u64))
            .and(Outcome::eq(b1.to_bits() as u64, p1 as u64))
            .and(Outcome::eq(b2.to_bits() as u64, p2 as u64))
            .and(Outcome::eq(b3.to_bits() as u64, p3 as u64))
    }
}

pub mod q16 {
    use super::*;
    const NAR: u128 = 1u128 << 127;
    pub fn roundtrip<S: Src>(s: &mut S) -> Outcome {
        let x = s.u16();
        let p = P16E1::from_bits(x);
        cover!(x & 1 == 1 && x >> 15 == 1);
        Outcome::eq(Q16E1::from(p).to_posit().to_bits() as u64, x as u64)
            .and(Outcome::eq(Q16E1::from_posit(p).to_posit().to_bits() as u64, x as u64))
            .and(Outcome::eq(P16E1::from(Q16E1::from(p)).to_bits() as u64, x as u64))
    }
    pub fn state_ops<S: Src>(s: &mut S) -> Outcome {
        let v = draw128(s);
        let mut q = Q16E1::from_bits(v);
        let same = q.to_bits() == v;
        q.neg();
        let negd = q.to_bits();
        q.neg();
        let back = q.to_bits();
        q.clear();
        cover!(v >> 127 == 1 && v & 1 == 1);
        Outcome::cond(same)
            .and(out128(negd, v.wrapping_neg()))
            .and(out128(back, v))
            .and(Outcome::cond(q.is_zero() && q.to_bits() == 0 && q.to_posit().to_bits() == 0))
    }
    fn rnd(v: u128) -> u16 {
        r::quire128_to_posit(16, 1, v, 56, NAR) as u16
    }
    pub fn split2<S: Src>(s: &mut S) -> Outcome {
        let v = draw128(s);
        crate::assume!(s, v != NAR);
        let p1 = rnd(v);
        let s2 = v.wrapping_sub(posit_fx128(16, 1, p1 as u32, 56));
        crate::assume!(s, s2 != NAR);
        let p2 = rnd(s2);
        let (a1, a2) = Q16E1::from_bits(v).into_two_posits();
        cover!(p2 != 0 && p2 >> 15 == 1);
        Outcome::eq(a1.to_bits() as u64, p1 as u64).and(Outcome::eq(a2.to_bits() as u64, p2 as u64))
    }
    pub fn split<S: Src>(s: &mut S) -> Outcome {
        let v = draw128(s);
        crate::assume!(s, v != NAR);
        let p1 = rnd(v);
        let s2 = v.wrapping_sub(posit_fx128(16, 1, p1 as u32, 56));
        crate::assume!(s, s2 != NAR);
        let p2 = rnd(s2);
        let s3 = s2.wrapping_sub(posit_fx128(16, 1, p2 as u32, 56));
        crate::assume!(s, s3 != NAR);
        let p3 = rnd(s3);
        let (b1, b2, b3) = Q16E1::from_bits(v).into_three_posits();
        cover!(p2 != 0 && p3 != 0);
        Outcome::eq(b1.to_bits() as u64, p1 as u64)
            .and(Outcome::eq(b2.to_bits() as u64, p2 as u64))
            .and(Outcome::eq(b3.to_bits() as u64, p3 as u64))
    }
}

pub mod q32 {
    use super::*;
    pub fn roundtrip<S: Src>(s: &mut S) -> Outcome {
        let x = s.u32();
        let p = P32E2::from_bits(x);
        cover!(x & 1 == 1 && x >> 31 == 1);
        Outcome::eq(Q32E2::from(p).to_posit().to_bits() as u64, x as u64)
            .and(Outcome::eq(Q32E2::from_posit(p).to_posit().to_bits() as u64, x as u64))
            .and(Outcome::eq(P32E2::from(Q32E2::from(p)).to_bits() as u64, x as u64))
    }
    pub fn state_ops<S: Src>(s: &mut S) -> Outcome {
        let v = draw512(s);
        let mut q = Q32E2::from_bits(v);
        let same = r::eq512(&q.to_bits(), &v);
        q.neg();
        let negd = q.to_bits();
        q.neg();
        let back = q.to_bits();
        q.clear();
        cover!(v[0] >> 63 == 1 && v[7] & 1 == 1 && v[3] != 0);
        Outcome::cond(same)
            .and(Outcome::eq8(negd, r::neg512(&v)))
            .and(Outcome::eq8(back, v))
            .and(Outcome::cond(q.is_zero() && r::is_zero512(&q.to_bits()) && q.to_posit().to_bits() == 0))
    }
    pub fn split2<S: Src>(s: &mut S) -> Outcome {
        let v = draw512(s);
        crate::assume!(s, !r::is_nar512(&v));
        let p1 = r::quire512_to_posit(32, 2, &v);
        let s2 = r::add512(&v, &r::neg512(&posit_fx512(p1)));
        crate::assume!(s, !r::is_nar512(&s2));
        let p2 = r::quire512_to_posit(32, 2, &s2);
        let (a1, a2) = Q32E2::from_bits(v).into_two_posits();
        cover!(p2 != 0);
        Outcome::eq(a1.to_bits() as u64, p1 as u64).and(Outcome::eq(a2.to_bits() as u64, p2 as u64))
    }
    pub fn split3<S: Src>(s: &mut S) -> Outcome {
        let v = draw512(s);
        crate::assume!(s, !r::is_nar512(&v));
        let p1 = r::quire512_to_posit(32, 2, &v);
        let s2 = r::add512(&v, &r::neg512(&posit_fx512(p1)));
        crate::assume!(s, !r::is_nar512(&s2));
        let p2 = r::quire512_to_posit(32, 2, &s2);
        let s3 = r::add512(&s2, &r::neg512(&posit_fx512(p2)));
        crate::assume!(s, !r::is_nar512(&s3));
        let p3 = r::quire512_to_posit(32, 2, &s3);
        let (b1, b2, b3) = Q32E2::from_bits(v).into_three_posits();
        cover!(p2 != 0 && p3 != 0);
        Outcome::eq(b1.to_bits() as u64, p1 as u64)
            .and(Outcome::eq(b2.to_bits() as u64, p2 as u64))
            .and(Outcome::eq(b3.to_bits() as u64, p3 as u64))
    }
}
