#!/bin/bash
# usage: seed_run.sh <seed-dir> <PROP> [extra check args]  — applies the seeded patch to /repo, runs the check, undoes it
S=$(realpath "$1"); P=$2; shift 2
cd /repo || exit 2
if ! git diff --quiet; then echo "/repo has uncommitted changes"; exit 2; fi
git apply "$S/patch.diff" || { echo "patch does not apply"; exit 2; }
cd /verif && VERIF_EVID_DIR=/verif/.build/seed_evidence bin/check $P "$@" > $S/check_$P.log 2>&1; rc=$?
git -C /repo checkout -- .
echo "$(basename $S) vs $P: exit $rc; $(grep -c '^VIOLATION' $S/check_$P.log) VIOLATION lines; $(grep '^== ' $S/check_$P.log | tail -1)"
grep -A1 "^VIOLATION" $S/check_$P.log | grep harness | cut -c1-260 | head -4
