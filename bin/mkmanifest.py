#!/usr/bin/env python3
"""Regenerates /verif/MANIFEST.json from bin/plan.py + bin/manifest_text.py (kept valid at all times)."""
import json, os, sys
ROOT = os.path.dirname(os.path.dirname(os.path.abspath(__file__)))
sys.path.insert(0, os.path.join(ROOT, "bin"))
import plan, extra, manifest_text as T

props = [json.loads(l) for l in open(os.path.join(ROOT, "properties.jsonl"))]
checks, na = [], []
for p in props:
    pid = p["id"]
    claimed = (pid in plan.PLAN or pid in extra.REGISTRY) and pid in T.CLAIMS
    if not claimed:
        na.append({"property_id": pid, "reason": T.NOT_APPLICABLE.get(pid, "no check built yet for this property in this tree of /verif")})
        continue
    c = T.CLAIMS[pid]
    checks.append({
        "property_id": pid,
        "quick_cmd": "bin/check %s --tier quick" % pid,
        "thorough_cmd": "bin/check %s --tier thorough" % pid,
        "evidence_file": "/verif/evidence/%s.json" % pid,
        "replay_cmd_template": "bin/check --replay {path}",
        "engine": "kani-cbmc",
        "level_claimed": {"category": "model_checking", "text": c["text"], "design_ref": c["design_ref"]},
        "level_note": c["note"],
        "technique": c["technique"],
    })
m = {
    "version": 1,
    "setup_cmd": "bin/setup",
    "hooks": {
        "guard": "none",
        "enable": "no source hooks are needed: every harness goes through the public API of /repo (path dependency), and crate-private kernels are reached with Kani's -Z stubbing by path",
        "baseline_off_cmd": "cd /repo && cargo test --workspace --no-fail-fast --offline",
        "source_commits": [],
        "add_only": True,
    },
    "engines": [
        {"name": "kani-cbmc", "path": "/verif/bin/check", "serves_properties": [c["property_id"] for c in checks],
         "kind_free_text": "Kani 0.68 -> CBMC 6.11 -> CaDiCaL bounded model checking of the real softposit MIR against an independent reference model (/verif/harness); native two-profile replay of every counterexample"},
    ],
    "checks": checks,
    "not_applicable": na,
    "notes": T.NOTES,
}
json.dump(m, open(os.path.join(ROOT, "MANIFEST.json"), "w"), indent=1)
print("MANIFEST.json: %d checks, %d not_applicable" % (len(checks), len(na)))
