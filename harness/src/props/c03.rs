//! C03 posit -> float, round trips, text wiring
use crate::refmodel as r;
use crate::{cover, Outcome, Src};

macro_rules! bodies {
    ($P:ty, $draw:ident, $n:expr, $es:expr) => {
        use super::*;
        pub fn to_f64<S: Src>(s: &mut S) -> Outcome {
            let x = s.$draw();
            let p = <$P>::from_bits(x);
            let g1 = p.to_f64();
            let g2 = f64::from(p);
            cover!(x & 1 == 1 && (x as u32) >> ($n - 1) == 1);
            match r::to_f64_bits($n, $es, x as u32) {
                None => Outcome::cond(g1.is_nan() && g2.is_nan()),
                Some(w) => Outcome::eq(g1.to_bits(), w).and(Outcome::eq(g2.to_bits(), w)),
            }
        }
        pub fn to_f32<S: Src>(s: &mut S) -> Outcome {
            let x = s.$draw();
            let p = <$P>::from_bits(x);
            let g1 = p.to_f32();
            let g2 = f32::from(p);
            cover!(x & 1 == 1 && (x as u32) >> ($n - 1) == 1);
            match r::to_f32_bits($n, $es, x as u32) {
                None => Outcome::cond(g1.is_nan() && g2.is_nan()),
                Some(w) => Outcome::eq(g1.to_bits() as u64, w as u64).and(Outcome::eq(g2.to_bits() as u64, w as u64)),
            }
        }
        pub fn f64_roundtrip<S: Src>(s: &mut S) -> Outcome {
            let x = s.$draw();
            let p = <$P>::from_bits(x);
            let back = <$P>::from(f64::from(p));
            cover!(x & 1 == 1 && (x as u32) >> ($n - 1) == 1);
            Outcome::eq(back.to_bits() as u64, x as u64)
        }
        /// Display hands exactly f64::from(p) to the f64 formatter, once (f64 Display stubbed)
        pub fn display_wiring<S: Src>(s: &mut S) -> Outcome {
            use core::fmt::Write;
            let x = s.$draw();
            let p = <$P>::from_bits(x);
            if S::SYMBOLIC {
                let mut sink = crate::stubs::Sink;
                let _ = write!(sink, "{}", p);
                let (calls, bits) = unsafe { (crate::stubs::FMT_CALLS, crate::stubs::FMT_BITS) };
                cover!(x & 1 == 1);
                let want = f64::from(p);
                Outcome::eq(calls as u64, 1).and(if want.is_nan() { Outcome::cond(f64::from_bits(bits).is_nan()) } else { Outcome::eq(bits, want.to_bits()) })
            } else {
                // native: the real text round trip, for the pattern and two neighbours that need every fraction bit
                let mut out = Outcome::cond(true);
                for xx in [x, x | 1, x ^ 0x0f] {
                    let pp = <$P>::from_bits(xx);
                    let txt = format!("{}", pp);
                    let o = match txt.parse::<$P>() {
                        Ok(q) => Outcome::eq(q.to_bits() as u64, xx as u64),
                        Err(_) => Outcome::cond(false),
                    };
                    out = out.and(o);
                }
                out
            }
        }
        /// FromStr returns From<f64> of exactly what the f64 parser returned (f64 FromStr stubbed)
        pub fn fromstr_wiring<S: Src>(s: &mut S) -> Outcome {
            if S::SYMBOLIC {
                let got = "1".parse::<$P>();
                let (calls, bits) = unsafe { (crate::stubs::PARSE_CALLS, crate::stubs::PARSE_RET) };
                cover!(bits & 0xffff == 0x1234);
                match got {
                    Ok(q) => Outcome::eq(calls as u64, 1).and(Outcome::eq(q.to_bits() as u64, <$P>::from(f64::from_bits(bits)).to_bits() as u64)),
                    Err(_) => Outcome::cond(false),
                }
            } else {
                // native: the f64 the (stubbed) parser returned under Kani goes through the REAL text path:
                // std prints it, the crate's FromStr parses it, and the result must be From<f64> of it. The
                // value and two neighbours that need the full f64 mantissa are tried.
                let b = s.u64();
                let mut out = Outcome::cond(true);
                for f in [b, b | 1, b ^ 0x000f_ffff_ffff_fffe] {
                    let v = f64::from_bits(f);
                    let txt = format!("{}", v);
                    let o = match txt.parse::<$P>() {
                        Ok(q) => Outcome::eq(q.to_bits() as u64, <$P>::from(v).to_bits() as u64),
                        Err(_) => Outcome::cond(false),
                    };
                    out = out.and(o);
                }
                out
            }
        }
    };
}
pub mod p8 {
    bodies!(softposit::P8E0, u8, 8, 0);
}
pub mod p16 {
    bodies!(softposit::P16E1, u16, 16, 1);
}
pub mod p32 {
    bodies!(softposit::P32E2, u32, 32, 2);
}
