//! C09 round / floor / ceil / trunc / fract
use crate::refmodel as r;
use crate::{cover, Outcome, Src};

macro_rules! bodies {
    ($P:ty, $draw:ident, $n:expr, $es:expr) => {
        use super::*;
        fn exact_int(z: u32) -> bool {
            // result must be an integer-valued posit (or 0 / NaR)
            if z == 0 || z == r::nar($n) {
                return true;
            }
            let (_, e, m) = r::dec($n, $es, z);
            if e < 0 {
                return false;
            }
            if e >= 31 {
                return true;
            }
            (m << (e as u32 + 1)) == 0
        }
        pub fn round<S: Src>(s: &mut S) -> Outcome {
            let x = s.$draw();
            let got = <$P>::from_bits(x).round().to_bits() as u32;
            cover!(got != x as u32 && got > 4 && x & 1 == 1);
            Outcome::eq(got as u64, r::rint($n, $es, x as u32, 0) as u64).and(Outcome::cond(exact_int(got)))
        }
        pub fn floor<S: Src>(s: &mut S) -> Outcome {
            let x = s.$draw();
            let got = <$P>::from_bits(x).floor().to_bits() as u32;
            cover!(got != x as u32 && got > 4 && x & 1 == 1);
            Outcome::eq(got as u64, r::rint($n, $es, x as u32, 1) as u64).and(Outcome::cond(exact_int(got)))
        }
        pub fn ceil<S: Src>(s: &mut S) -> Outcome {
            let x = s.$draw();
            let got = <$P>::from_bits(x).ceil().to_bits() as u32;
            cover!(got != x as u32 && got > 4 && x & 1 == 1);
            Outcome::eq(got as u64, r::rint($n, $es, x as u32, 2) as u64).and(Outcome::cond(exact_int(got)))
        }
        pub fn trunc<S: Src>(s: &mut S) -> Outcome {
            let x = s.$draw();
            let got = <$P>::from_bits(x).trunc().to_bits() as u32;
            cover!(got != x as u32 && got > 4 && x & 1 == 1);
            Outcome::eq(got as u64, r::rint($n, $es, x as u32, 3) as u64).and(Outcome::cond(exact_int(got)))
        }
        pub fn fract<S: Src>(s: &mut S) -> Outcome {
            let x = s.$draw();
            let got = <$P>::from_bits(x).fract().to_bits() as u32;
            cover!(got != x as u32 && got != 0 && x & 1 == 1);
            // reference: exact x - trunc(x); cross-check: trunc(x) + fract(x) == x exactly in the reference's arithmetic
            let want = r::fract($n, $es, x as u32);
            let sum = r::add($n, $es, r::rint($n, $es, x as u32, 3), want);
            Outcome::eq(got as u64, want as u64).and(Outcome::eq(sum as u64, x as u64))
        }
    };
}
pub mod p8 {
    bodies!(softposit::P8E0, u8, 8, 0);
}
pub mod p16 {
    bodies!(softposit::P16E1, u16, 16, 1);
}
pub mod p32 {
    bodies!(softposit::P32E2, u32, 32, 2);
}
