//! Kani stubs (only compiled under Kani). Every stub is part of the claim and is listed in the
//! evidence of the check that uses it.

/// log of the single integer division performed by the implementation
pub static mut DIV_N: u64 = 0;
pub static mut DIV_D: u64 = 0;
pub static mut DIV_Q: u64 = 0;
pub static mut DIV_R: u64 = 0;
pub static mut DIV_CALLS: u32 = 0;

/// contract of `softposit::lldiv` on its call-site domain (n >= 0, d > 0): q*d + r == n, 0 <= r < d.
/// The quotient is a fresh nondeterministic value shared with the reference, so the formula contains
/// one multiplication instead of two unrelated dividers.
#[cfg(kani)]
pub fn lldiv_stub(n: i64, d: i64) -> (i64, i64) {
    let q: i64 = kani::any();
    let r: i64 = kani::any();
    kani::assume(d > 0 && n >= 0);
    kani::assume(q >= 0 && q <= n && r >= 0 && r < d);
    kani::assume((q as u64 as u128) * (d as u64 as u128) + (r as u64 as u128) == (n as u64 as u128));
    unsafe {
        DIV_N = n as u64;
        DIV_D = d as u64;
        DIV_Q = q as u64;
        DIV_R = r as u64;
        DIV_CALLS += 1;
    }
    (q, r)
}
#[cfg(kani)]
pub fn div_stub(n: i32, d: i32) -> (i32, i32) {
    let q: i32 = kani::any();
    let r: i32 = kani::any();
    kani::assume(d > 0 && n >= 0);
    kani::assume(q >= 0 && q <= n && r >= 0 && r < d);
    kani::assume((q as i64) * (d as i64) + (r as i64) == (n as i64));
    unsafe {
        DIV_N = n as u64;
        DIV_D = d as u64;
        DIV_Q = q as u64;
        DIV_R = r as u64;
        DIV_CALLS += 1;
    }
    (q, r)
}

/// proxies replaced (by `#[kani::stub(vh::stubs::lldiv_proxy, softposit::lldiv)]`) with the REAL
/// crate-private kernels, so their contract can be checked without a source hook.
pub fn lldiv_proxy(_n: i64, _d: i64) -> (i64, i64) {
    (0, -1)
}
pub fn div_proxy(_n: i32, _d: i32) -> (i32, i32) {
    (0, -1)
}

// ---- f64 text contract (Display prints a string that parses back to the same value) ----
pub static mut FMT_BITS: u64 = 0;
pub static mut FMT_CALLS: u32 = 0;
pub fn f64_fmt_stub(x: &f64, _f: &mut core::fmt::Formatter<'_>) -> core::fmt::Result {
    unsafe {
        FMT_BITS = x.to_bits();
        FMT_CALLS += 1;
    }
    Ok(())
}
pub static mut PARSE_RET: u64 = 0;
pub static mut PARSE_CALLS: u32 = 0;
#[cfg(kani)]
pub fn f64_from_str_stub(_s: &str) -> Result<f64, core::num::ParseFloatError> {
    let b: u64 = kani::any();
    unsafe {
        PARSE_RET = b;
        PARSE_CALLS += 1;
    }
    Ok(f64::from_bits(b))
}
pub struct Sink;
impl core::fmt::Write for Sink {
    fn write_str(&mut self, _s: &str) -> core::fmt::Result {
        Ok(())
    }
}

// ---- call markers (C17): replace a heavy inherent function by a recorder returning a fresh value,
// so "the forwarder calls exactly this function once with exactly these arguments and returns its
// result" is decided without encoding the function body.
macro_rules! markers {
    ($m:ident, $P:ty) => {
        pub mod $m {
            pub static mut CALLS: u32 = 0;
            pub static mut A: u64 = 0;
            pub static mut B: u64 = 0;
            pub static mut C: u64 = 0;
            pub static mut R: u64 = 0;
            pub static mut R2: u64 = 0;
            #[cfg(kani)]
            pub fn m1(x: $P) -> $P {
                let r = <$P>::from_bits(kani::any());
                unsafe {
                    CALLS += 1;
                    A = x.to_bits() as u64;
                    R = r.to_bits() as u64;
                }
                r
            }
            #[cfg(kani)]
            pub fn m2(x: $P, y: $P) -> $P {
                let r = <$P>::from_bits(kani::any());
                unsafe {
                    CALLS += 1;
                    A = x.to_bits() as u64;
                    B = y.to_bits() as u64;
                    R = r.to_bits() as u64;
                }
                r
            }
            #[cfg(kani)]
            pub fn m3(x: $P, y: $P, z: $P) -> $P {
                let r = <$P>::from_bits(kani::any());
                unsafe {
                    CALLS += 1;
                    A = x.to_bits() as u64;
                    B = y.to_bits() as u64;
                    C = z.to_bits() as u64;
                    R = r.to_bits() as u64;
                }
                r
            }
            #[cfg(kani)]
            pub fn mi(x: $P, n: i32) -> $P {
                let r = <$P>::from_bits(kani::any());
                unsafe {
                    CALLS += 1;
                    A = x.to_bits() as u64;
                    B = n as u32 as u64;
                    R = r.to_bits() as u64;
                }
                r
            }
            #[cfg(kani)]
            pub fn m12(x: $P) -> ($P, $P) {
                let r = <$P>::from_bits(kani::any());
                let r2 = <$P>::from_bits(kani::any());
                unsafe {
                    CALLS += 1;
                    A = x.to_bits() as u64;
                    R = r.to_bits() as u64;
                    R2 = r2.to_bits() as u64;
                }
                (r, r2)
            }
        }
    };
}
markers!(mp8, softposit::P8E0);
markers!(mp16, softposit::P16E1);
markers!(mp32, softposit::P32E2);
