//! C08 posit <-> posit conversions
use crate::refmodel as r;
use crate::{cover, Outcome, Src};
use softposit::{P16E1, P32E2, P8E0};

pub fn p32_to_p16<S: Src>(s: &mut S) -> Outcome {
    let x = s.u32();
    let got = P16E1::from(P32E2::from_bits(x)).to_bits() as u64;
    let got2 = P32E2::from_bits(x).to_p16e1().to_bits() as u64;
    let want = r::p2p(32, 2, 16, 1, x) as u64;
    cover!(got & 1 == 1 && x & 0xffff != 0);
    Outcome::eq(got, want).and(Outcome::eq(got2, want))
}
pub fn p32_to_p8<S: Src>(s: &mut S) -> Outcome {
    let x = s.u32();
    let got = P8E0::from(P32E2::from_bits(x)).to_bits() as u64;
    let want = r::p2p(32, 2, 8, 0, x) as u64;
    cover!(got & 1 == 1 && x & 0xffff != 0);
    Outcome::eq(got, want)
}
pub fn p16_to_p8<S: Src>(s: &mut S) -> Outcome {
    let x = s.u16();
    let got = P8E0::from(P16E1::from_bits(x)).to_bits() as u64;
    let want = r::p2p(16, 1, 8, 0, x as u32) as u64;
    cover!(got & 1 == 1 && x & 0xff != 0);
    Outcome::eq(got, want)
}
pub fn p16_to_p32<S: Src>(s: &mut S) -> Outcome {
    let x = s.u16();
    let w = P32E2::from(P16E1::from_bits(x));
    let got = w.to_bits() as u64;
    let want = r::p2p(16, 1, 32, 2, x as u32) as u64;
    cover!(x & 1 == 1 && x >> 15 == 1);
    // widening exact, and narrowing back is the identity
    Outcome::eq(got, want)
        .and(Outcome::cond(r::p2p_exact(16, 1, 32, 2, x as u32)))
        .and(Outcome::eq(P16E1::from(w).to_bits() as u64, x as u64))
}
pub fn p8_to_p32<S: Src>(s: &mut S) -> Outcome {
    let x = s.u8();
    let w = P32E2::from(P8E0::from_bits(x));
    let got = w.to_bits() as u64;
    let want = r::p2p(8, 0, 32, 2, x as u32) as u64;
    cover!(x & 1 == 1 && x >> 7 == 1);
    Outcome::eq(got, want)
        .and(Outcome::cond(r::p2p_exact(8, 0, 32, 2, x as u32)))
        .and(Outcome::eq(P8E0::from(w).to_bits() as u64, x as u64))
}
pub fn p8_to_p16<S: Src>(s: &mut S) -> Outcome {
    let x = s.u8();
    let w = P16E1::from(P8E0::from_bits(x));
    let got = w.to_bits() as u64;
    let want = r::p2p(8, 0, 16, 1, x as u32) as u64;
    cover!(x & 1 == 1 && x >> 7 == 1);
    Outcome::eq(got, want)
        .and(Outcome::cond(r::p2p_exact(8, 0, 16, 1, x as u32)))
        .and(Outcome::eq(P8E0::from(w).to_bits() as u64, x as u64))
}
