"""Solver checks that are not Kani harnesses (SMT encodings generated from the current source)."""

REGISTRY = {}


def checks_for(prop, tier):
    return [c for c in REGISTRY.get(prop, []) if tier == "thorough" or c.tier == "quick"]


def replay(rec, replay_native):
    for cs in REGISTRY.values():
        for c in cs:
            if c.name == rec.get("check"):
                return c.replay(rec)
    print("unknown extra check", rec.get("check"))
    return 2
