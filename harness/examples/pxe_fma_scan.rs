// development aid: native scan of PxE2<N>::mul_add against the reference (not part of any check)
use softposit::PxE2;
use vh::refmodel as r;
fn scan<const N: u32>() {
    let mut bad = 0u64; let mut first = vec![];
    let m = r::mask(N);
    let mut s = 0x1234_5678_9abc_def1u64;
    for _ in 0..3_000_000 {
        s ^= s << 13; s ^= s >> 7; s ^= s << 17;
        let (x, y, z) = ((s as u32) & m, ((s >> 20) as u32) & m, ((s >> 40) as u32) & m);
        let sh = 32 - N;
        let g = PxE2::<N>::from_bits(x << sh).mul_add(PxE2::<N>::from_bits(y << sh), PxE2::<N>::from_bits(z << sh)).to_bits();
        let w = r::fma(N, 2, x, y, z) << sh;
        if g != w { bad += 1; if first.len() < 4 { first.push(format!("{:#x} {:#x} {:#x}: got {:#x} want {:#x}", x, y, z, g >> sh, w >> sh)); } }
    }
    println!("N={N}: {bad} mismatches {:?}", first);
}
fn scan1<const N: u32>() {
    use softposit::PxE1;
    let mut bad = 0u64; let mut first = vec![];
    let m = r::mask(N);
    let mut s = 0x1234_5678_9abc_def1u64;
    for i in 0..6_000_000u64 {
        s ^= s << 13; s ^= s >> 7; s ^= s << 17;
        let (mut x, mut y, mut z) = ((s as u32) & m, ((s >> 20) as u32) & m, ((s >> 40) as u32) & m);
        if i % 2 == 0 { // long regimes
            let sh1 = (s >> 59) as u32 % N; x = (((x << (32 - N)) as i32 >> sh1) as u32) >> (32 - N);
            let sh2 = (s >> 53) as u32 % N; z = (((z << (32 - N)) as i32 >> sh2) as u32) >> (32 - N);
            y &= m;
        }
        let sh = 32 - N;
        let g = PxE1::<N>::from_bits(x << sh).mul_add(PxE1::<N>::from_bits(y << sh), PxE1::<N>::from_bits(z << sh)).to_bits();
        let w = r::fma(N, 1, x, y, z) << sh;
        if g != w { bad += 1; if first.len() < 4 { first.push(format!("{:#x} {:#x} {:#x}: got {:#x} want {:#x}", x, y, z, g >> sh, w >> sh)); } }
    }
    println!("PxE1 N={N}: {bad} mismatches {:?}", first);
}
fn main() { scan::<8>(); scan::<12>(); scan::<16>(); scan::<24>(); scan1::<16>(); scan1::<20>(); scan1::<24>(); scan1::<32>(); }
