//! C16 totality: functions no other property's harness calls, on every input (NaR included).
//! Nothing is asserted about the value: the verdict is Kani's own checks (overflow, shift, index,
//! division, panic, unwinding). The other properties' harnesses are re-run under C16 for the rest.
use crate::{cover, Outcome, Src};

macro_rules! bodies {
    ($P:ty, $draw:ident) => {
        use super::*;
        type P = $P;
        /// integer casts of every width, on every pattern including NaR
        pub fn int_casts<S: Src>(s: &mut S) -> Outcome {
            let x = s.$draw();
            let p = P::from_bits(x);
            let acc = (p.to_i8() as u64)
                ^ (p.to_i16() as u64)
                ^ (p.to_i32() as u64)
                ^ (p.to_i64() as u64)
                ^ (p.to_isize() as u64)
                ^ (p.to_u8() as u64)
                ^ (p.to_u16() as u64)
                ^ (p.to_u32() as u64)
                ^ (p.to_u64())
                ^ (p.to_usize() as u64)
                ^ (i8::from(p) as u64)
                ^ (i16::from(p) as u64)
                ^ (isize::from(p) as u64)
                ^ (u8::from(p) as u64)
                ^ (u16::from(p) as u64)
                ^ (usize::from(p) as u64)
                ^ (u32::from(p) as u64)
                ^ (i64::from(p) as u64);
            cover!(x & 1 == 1 && acc & 1 == 1);
            // narrow casts are truncations of the wide ones
            Outcome::cond(p.to_i8() == p.to_i32() as i8 && p.to_u16() == p.to_u32() as u16 && p.to_usize() == p.to_u64() as usize)
        }
        /// recip, rem, div_euclid, rem_euclid (integer division kernel stubbed by its contract)
        pub fn div_family<S: Src>(s: &mut S) -> Outcome {
            let (x, y) = (s.$draw(), s.$draw());
            let op = s.u8();
            crate::assume!(s, op < 4);
            let (p, q) = (P::from_bits(x), P::from_bits(y));
            let z = match op {
                0 => p.recip(),
                1 => p.rem(q),
                2 => p.div_euclid(q),
                _ => p.rem_euclid(q),
            };
            cover!(x & 1 == 1 && y & 1 == 1 && z.to_bits() & 1 == 1);
            Outcome::cond(z.to_bits() == z.to_bits())
        }
        /// the real division kernel, nothing asserted about the quotient
        pub fn div_unstubbed<S: Src>(s: &mut S) -> Outcome {
            let (x, y) = (s.$draw(), s.$draw());
            let z = P::from_bits(x) / P::from_bits(y);
            cover!(x & 1 == 1 && y & 1 == 1);
            Outcome::cond(z.to_bits() == z.to_bits())
        }
        pub fn debug_fmt<S: Src>(s: &mut S) -> Outcome {
            use core::fmt::Write;
            let x = s.$draw();
            let mut sink = crate::stubs::Sink;
            let r = write!(sink, "{:?}", P::from_bits(x));
            cover!(x & 1 == 1);
            Outcome::cond(r.is_ok())
        }
    };
}
pub mod p8 {
    bodies!(softposit::P8E0, u8);
}
pub mod p16 {
    bodies!(softposit::P16E1, u16);
    pub fn scale_ops<S: Src>(s: &mut S) -> Outcome {
        let x = s.u16();
        let p = softposit::P16E1::from_bits(x);
        let a = p.to_degrees().to_bits() as u64;
        let b = p.to_radians().to_bits() as u64;
        cover!(x & 1 == 1 && a != b);
        Outcome::cond(a == a && b == b)
    }
}
pub mod p32 {
    bodies!(softposit::P32E2, u32);
    pub fn scale_ops<S: Src>(s: &mut S) -> Outcome {
        let x = s.u32();
        let p = softposit::P32E2::from_bits(x);
        let a = p.to_degrees().to_bits() as u64;
        let b = p.to_radians().to_bits() as u64;
        cover!(x & 1 == 1 && a != b);
        Outcome::cond(a == a && b == b)
    }
}
