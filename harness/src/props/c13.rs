//! C13 generic-width arithmetic: PxE1<N>, PxE2<N> compute as N-bit posits
use crate::refmodel as r;
use crate::{cover, Outcome, Src};

/// got must have zero low bits and equal the N-bit reference pattern left-aligned
fn cmp_n(n: u32, got: u32, want: u32) -> Outcome {
    let sh = 32 - n;
    let low = if sh == 0 { 0 } else { got & ((1u32 << sh) - 1) };
    Outcome::eq(low as u64, 0).and(Outcome::eq((got >> sh) as u64, want as u64))
}

macro_rules! bodies {
    ($P:ident, $es:expr) => {
        use super::*;
        use softposit::$P;
        fn draw<const N: u32, S: Src>(s: &mut S) -> Option<u32> {
            let x = s.u32();
            if s.assume(x <= r::mask(N)) {
                Some(x)
            } else {
                None
            }
        }
        fn mk<const N: u32>(x: u32) -> $P<N> {
            $P::<N>::from_bits(x << (32 - N))
        }
        /// OP: 0 add, 1 sub, 2 mul
        pub fn arith<const N: u32, const OP: u8, S: Src>(s: &mut S) -> Outcome {
            let (x, y) = match (draw::<N, S>(s), draw::<N, S>(s)) {
                (Some(x), Some(y)) => (x, y),
                _ => return Outcome::skip(),
            };
            let (a, b) = (mk::<N>(x), mk::<N>(y));
            let (got, want) = match OP {
                0 => ((a + b).to_bits(), r::add(N, $es, x, y)),
                1 => ((a - b).to_bits(), r::sub(N, $es, x, y)),
                _ => ((a * b).to_bits(), r::mul(N, $es, x, y)),
            };
            cover!(N <= 3 || (got >> (32 - N)) & 1 == 1 && x != y && r::is_real(N, x) && r::is_real(N, y));
            cmp_n(N, got, want)
        }
        /// add/sub slices for wide N: sign relation x scale distance (as for P32E2)
        pub fn addsub_slice<const N: u32, const OP: u8, const SAME: bool, const DLO: i32, const DHI: i32, S: Src>(s: &mut S) -> Outcome {
            let (x, y) = match (draw::<N, S>(s), draw::<N, S>(s)) {
                (Some(x), Some(y)) => (x, y),
                _ => return Outcome::skip(),
            };
            let ye = if OP == 1 { r::neg_n(N, y) } else { y };
            crate::assume!(s, r::is_real(N, x) && r::is_real(N, ye));
            let same = r::sign_of(N, x) == r::sign_of(N, ye);
            let d = (r::scale_of(N, $es, x) - r::scale_of(N, $es, ye)).abs();
            crate::assume!(s, same == SAME && d >= DLO && d <= DHI);
            let (a, b) = (mk::<N>(x), mk::<N>(y));
            let (got, want) = if OP == 0 { ((a + b).to_bits(), r::add(N, $es, x, y)) } else { ((a - b).to_bits(), r::sub(N, $es, x, y)) };
            cover!((got >> (32 - N)) & 1 == 1);
            cmp_n(N, got, want)
        }
        pub fn addsub_special<const N: u32, S: Src>(s: &mut S) -> Outcome {
            let (x, y) = match (draw::<N, S>(s), draw::<N, S>(s)) {
                (Some(x), Some(y)) => (x, y),
                _ => return Outcome::skip(),
            };
            crate::assume!(s, !(r::is_real(N, x) && r::is_real(N, y)));
            let (a, b) = (mk::<N>(x), mk::<N>(y));
            cover!(x == 0 && y != 0);
            cmp_n(N, (a + b).to_bits(), r::add(N, $es, x, y)).and(cmp_n(N, (a - b).to_bits(), r::sub(N, $es, x, y)))
        }
        /// division modulo the lldiv contract (stubbed; quotient shared with the reference)
        pub fn div<const N: u32, S: Src>(s: &mut S) -> Outcome {
            let (x, y) = match (draw::<N, S>(s), draw::<N, S>(s)) {
                (Some(x), Some(y)) => (x, y),
                _ => return Outcome::skip(),
            };
            let got = (mk::<N>(x) / mk::<N>(y)).to_bits();
            if !r::is_real(N, x) || !r::is_real(N, y) {
                let want = if x == r::nar(N) || y == r::nar(N) || y == 0 { r::nar(N) } else { 0 };
                return cmp_n(N, got, want);
            }
            if S::SYMBOLIC {
                let w = crate::props::c01::div_want_from_log(N, $es, x, y);
                if !w.ok {
                    return w;
                }
                cover!(N <= 5 || (got >> (32 - N)) & 1 == 1 && unsafe { crate::stubs::DIV_R } != 0);
                cmp_n(N, got, w.want[0] as u32)
            } else {
                cmp_n(N, got, r::native_div(N, $es, x, y))
            }
        }
        /// OP: 0 mul_add, 1 mul_sub, 2 sub_product
        pub fn fma<const N: u32, const OP: u8, S: Src>(s: &mut S) -> Outcome {
            let (x, y, z) = match (draw::<N, S>(s), draw::<N, S>(s), draw::<N, S>(s)) {
                (Some(x), Some(y), Some(z)) => (x, y, z),
                _ => return Outcome::skip(),
            };
            let (a, b, c) = (mk::<N>(x), mk::<N>(y), mk::<N>(z));
            let (got, want) = match OP {
                0 => (a.mul_add(b, c).to_bits(), r::fma(N, $es, x, y, z)),
                1 => (a.mul_sub(b, c).to_bits(), r::fma(N, $es, x, y, r::neg_n(N, z))),
                _ => (c.sub_product(a, b).to_bits(), r::fma(N, $es, r::neg_n(N, x), y, z)),
            };
            cover!(N <= 3 || (got >> (32 - N)) & 1 == 1 && z != 0 && x != 0);
            cmp_n(N, got, want)
        }
        /// one slice of the partition of real triples for wide N (as c05::p32::slice): sign relation of product and
        /// effective addend x alignment distance scale(a)+scale(b)-scale(c). OP: 0 mul_add, 1 mul_sub, 2 sub_product
        pub fn fma_slice<const N: u32, const OP: u8, const SAME: bool, const DLO: i32, const DHI: i32, S: Src>(s: &mut S) -> Outcome {
            let (x, y, z) = match (draw::<N, S>(s), draw::<N, S>(s), draw::<N, S>(s)) {
                (Some(x), Some(y), Some(z)) => (x, y, z),
                _ => return Outcome::skip(),
            };
            crate::assume!(s, r::is_real(N, x) && r::is_real(N, y) && r::is_real(N, z));
            let (xe, ze) = match OP {
                0 => (x, z),
                1 => (x, r::neg_n(N, z)),
                _ => (r::neg_n(N, x), z),
            };
            let sp = r::sign_of(N, xe) != r::sign_of(N, y);
            let sc = r::sign_of(N, ze);
            let d = r::scale_of(N, $es, x) + r::scale_of(N, $es, y) - r::scale_of(N, $es, z);
            crate::assume!(s, (sp == sc) == SAME && d >= DLO && d <= DHI);
            let (a, b, c) = (mk::<N>(x), mk::<N>(y), mk::<N>(z));
            let got = match OP {
                0 => a.mul_add(b, c),
                1 => a.mul_sub(b, c),
                _ => c.sub_product(a, b),
            }
            .to_bits();
            cover!((got >> (32 - N)) & 1 == 1 && got >> (32 - N) != 1);
            cmp_n(N, got, r::fma(N, $es, xe, y, ze))
        }
        /// zero / NaR operands of the mul_add family, all three operations
        pub fn fma_special<const N: u32, S: Src>(s: &mut S) -> Outcome {
            let (x, y, z) = match (draw::<N, S>(s), draw::<N, S>(s), draw::<N, S>(s)) {
                (Some(x), Some(y), Some(z)) => (x, y, z),
                _ => return Outcome::skip(),
            };
            crate::assume!(s, !(r::is_real(N, x) && r::is_real(N, y) && r::is_real(N, z)));
            let (a, b, c) = (mk::<N>(x), mk::<N>(y), mk::<N>(z));
            cover!(z == 0 && x & 1 == 1 && y & 1 == 1 && r::sign_of(N, x));
            cmp_n(N, a.mul_add(b, c).to_bits(), r::fma(N, $es, x, y, z))
                .and(cmp_n(N, a.mul_sub(b, c).to_bits(), r::fma(N, $es, x, y, r::neg_n(N, z))))
                .and(cmp_n(N, c.sub_product(a, b).to_bits(), r::fma(N, $es, r::neg_n(N, x), y, z)))
        }
        pub fn round<const N: u32, S: Src>(s: &mut S) -> Outcome {
            let x = match draw::<N, S>(s) {
                Some(x) => x,
                None => return Outcome::skip(),
            };
            let got = $P::<N>::round(mk::<N>(x)).to_bits();
            cover!(N <= 6 || (got >> (32 - N)) != x && got != 0);
            cmp_n(N, got, r::rint(N, $es, x, 0))
        }
    };
}
pub mod pxe1 {
    bodies!(PxE1, 1);
    /// PxE1<16> agrees bit-for-bit with P16E1 (pattern left-aligned)
    pub fn agree16<const OP: u8, S: Src>(s: &mut S) -> Outcome {
        use softposit::P16E1;
        let (x, y) = (s.u16(), s.u16());
        let (a, b) = (mk::<16>(x as u32), mk::<16>(y as u32));
        let (p, q) = (P16E1::from_bits(x), P16E1::from_bits(y));
        let (g, w) = match OP {
            0 => ((a + b).to_bits(), (p + q).to_bits()),
            1 => ((a - b).to_bits(), (p - q).to_bits()),
            _ => ((a * b).to_bits(), (p * q).to_bits()),
        };
        cover!(w & 1 == 1);
        Outcome::eq(g as u64, (w as u64) << 16)
    }
}
pub mod pxe2 {
    bodies!(PxE2, 2);
    /// FB < 32: only inputs whose fraction has at most FB significant bits (wide N: the Newton-Raphson kernel is out of
    /// solver reach on the full domain, exactly as for P32E2)
    pub fn sqrt_fbits<const N: u32, const FB: u32, S: Src>(s: &mut S) -> Outcome {
        let x = match draw::<N, S>(s) {
            Some(x) => x,
            None => return Outcome::skip(),
        };
        if r::is_real(N, x) && !r::sign_of(N, x) {
            crate::assume!(s, r::dec(N, 2, x).2 << 1 << FB == 0);
        }
        let got = mk::<N>(x).sqrt().to_bits();
        let want = if r::sign_of(N, x) {
            r::nar(N)
        } else if x == 0 {
            0
        } else if !S::SYMBOLIC {
            r::native_sqrt(N, 2, x)
        } else {
            let (nn, _) = r::sqrt_radicand(N, 2, x);
            let w = s.u64();
            crate::assume!(s, w >= (1u64 << 48) && w < (1u64 << 49));
            let ww = w as u128;
            crate::assume!(s, ww * ww <= nn && nn < (ww + 1) * (ww + 1));
            r::sqrt_from_root(N, 2, x, w)
        };
        cover!((got >> (32 - N)) & 1 == 1);
        cmp_n(N, got, want)
    }
    pub fn sqrt<const N: u32, S: Src>(s: &mut S) -> Outcome {
        let x = match draw::<N, S>(s) {
            Some(x) => x,
            None => return Outcome::skip(),
        };
        let got = mk::<N>(x).sqrt().to_bits();
        let want = if r::sign_of(N, x) {
            r::nar(N)
        } else if x == 0 {
            0
        } else if !S::SYMBOLIC {
            r::native_sqrt(N, 2, x)
        } else {
            let (nn, _) = r::sqrt_radicand(N, 2, x);
            let w = s.u64();
            crate::assume!(s, w >= (1u64 << 48) && w < (1u64 << 49));
            let ww = w as u128;
            crate::assume!(s, ww * ww <= nn && nn < (ww + 1) * (ww + 1));
            r::sqrt_from_root(N, 2, x, w)
        };
        cover!(N <= 3 || (got >> (32 - N)) & 1 == 1);
        cmp_n(N, got, want)
    }
    /// PxE2<32> agrees bit-for-bit with P32E2
    pub fn agree32<const OP: u8, S: Src>(s: &mut S) -> Outcome {
        use softposit::P32E2;
        let (x, y) = (s.u32(), s.u32());
        let (a, b) = (mk::<32>(x), mk::<32>(y));
        let (p, q) = (P32E2::from_bits(x), P32E2::from_bits(y));
        let (g, w) = match OP {
            0 => ((a + b).to_bits(), (p + q).to_bits()),
            1 => ((a - b).to_bits(), (p - q).to_bits()),
            _ => ((a * b).to_bits(), (p * q).to_bits()),
        };
        cover!(w & 1 == 1);
        Outcome::eq(g as u64, w as u64)
    }
}
