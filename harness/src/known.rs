//! Known-finding regions. `known_gen.rs` is regenerated on every run by /verif/bin/check from
//! /verif/known_findings.json: a region is ACTIVE (excluded from the harness domain) only while its
//! entry is `open` and its witness still fails natively on the current tree.
include!("known_gen.rs");
