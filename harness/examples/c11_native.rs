// native comparison of every C11 function with its table (development aid; the check itself is Kani)
use vh::{ReplaySrc, Src};
fn main() {
    let fs: Vec<(&str, fn(&mut ReplaySrc) -> vh::Outcome)> = vec![
        ("exp", vh::props::c11::exp::<16, ReplaySrc>), ("exp2", vh::props::c11::exp2::<16, ReplaySrc>), ("ln", vh::props::c11::ln::<16, ReplaySrc>),
        ("log2", vh::props::c11::log2::<16, ReplaySrc>), ("sin_pi", vh::props::c11::sin_pi::<16, ReplaySrc>), ("cos_pi", vh::props::c11::cos_pi::<16, ReplaySrc>),
        ("tan_pi", vh::props::c11::tan_pi::<16, ReplaySrc>), ("asin_pi", vh::props::c11::asin_pi::<16, ReplaySrc>), ("acos_pi", vh::props::c11::acos_pi::<16, ReplaySrc>),
        ("atan_pi", vh::props::c11::atan_pi::<16, ReplaySrc>),
    ];
    for (n, f) in fs {
        let mut bad = 0; let mut first = vec![];
        for x in 0..=0xffffu32 {
            let r = std::panic::catch_unwind(|| { let mut s = ReplaySrc::new(vec![vec![x as u8, (x >> 8) as u8]]); f(&mut s) });
            match r { Ok(o) if o.ok => {}, Ok(o) => { bad += 1; if first.len() < 5 { first.push(format!("{:#x}: got {:#x} want {:#x}", x, o.got[0], o.want[0])); } }, Err(_) => { bad += 1; if first.len() < 5 { first.push(format!("{:#x}: PANIC", x)); } } }
        }
        println!("{n}: {bad} mismatches {:?}", first);
    }
    for (n, f) in [("exp8", vh::props::c11::exp8::<ReplaySrc> as fn(&mut ReplaySrc) -> vh::Outcome), ("ln8", vh::props::c11::ln8::<ReplaySrc>)] {
        let mut bad = 0;
        for x in 0..=0xffu32 { let mut s = ReplaySrc::new(vec![vec![x as u8]]); if !f(&mut s).ok { bad += 1; } }
        println!("{n}: {bad} mismatches");
    }
}
