//! C02 float -> posit
use crate::refmodel as r;
use crate::{cover, Outcome, Src};

macro_rules! bodies {
    ($P:ty, $n:expr, $es:expr) => {
        use super::*;
        pub fn from_f32<S: Src>(s: &mut S) -> Outcome {
            let f = s.u32();
            let got = <$P>::from_f32(f32::from_bits(f)).to_bits() as u64;
            let got2 = <$P>::from(f32::from_bits(f)).to_bits() as u64;
            let want = r::from_f32_bits($n, $es, f) as u64;
            cover!(got & 1 == 1 && f & 0xfff != 0 && got != 1);
            cover!((f >> 23) & 0xff == 0 && f << 9 != 0); // subnormal
            Outcome::eq(got, want).and(Outcome::eq(got2, want))
        }
        pub fn from_f64<S: Src>(s: &mut S) -> Outcome {
            let f = s.u64();
            let got = <$P>::from_f64(f64::from_bits(f)).to_bits() as u64;
            let got2 = <$P>::from(f64::from_bits(f)).to_bits() as u64;
            let want = r::from_f64_bits($n, $es, f) as u64;
            cover!(got & 1 == 1 && f & 0xfff != 0 && got != 1);
            cover!((f >> 52) & 0x7ff == 0 && f << 12 != 0);
            Outcome::eq(got, want).and(Outcome::eq(got2, want))
        }
        /// the result depends only on the value: from_f32(x) == from_f64(x as f64)
        pub fn f32_f64_agree<S: Src>(s: &mut S) -> Outcome {
            let f = s.u32();
            let x = f32::from_bits(f);
            let a = <$P>::from_f32(x).to_bits() as u64;
            let b = <$P>::from_f64(x as f64).to_bits() as u64;
            cover!(a & 1 == 1 && a != 1);
            Outcome::eq(a, b)
        }
    };
}
pub mod p8 {
    bodies!(softposit::P8E0, 8, 0);
}
pub mod p16 {
    bodies!(softposit::P16E1, 16, 1);
}
pub mod p32 {
    bodies!(softposit::P32E2, 32, 2);
}
